#include "aldor"
#include "aldorio"
import from Boolean, String, Character, TextWriter;
define VExnA: Category == with;
VExA: VExnA == add;
define VExnB: Category == with;
VExB: VExnB == add;
pIMI(t: String, x: MachineInteger): () == { stdout << t << x << newline; }
pIBI(t: String, x: Integer): () == { stdout << t << x << newline; }
pL(t: String, x: Boolean): () == { stdout << t << x << newline; }
pS(t: String, x: String): () == { stdout << t << x << newline; }

mvp4537(n: MachineInteger): (MachineInteger, MachineInteger) == { import from MachineInteger; (n, n + 1) }
mvt4537(n: MachineInteger): (MachineInteger, MachineInteger) == { import from MachineInteger; n > 2 => throw VExA; n = 1 => throw VExB; (n * 10, n) }
c4537(): () == {
	import from MachineInteger;
	for i in 1..5 repeat {
		r: MachineInteger := try { (a, b) := mvt4537(i); a + b } catch E in { E has VExnA => -1; E has VExnB => -2; throw E };
		pIMI("K4537:", r);
	}
}

c4537();
