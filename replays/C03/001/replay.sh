#!/bin/sh
# replay without the explorer; run from this directory
cd "$(dirname "$0")"
/verif/build/2ff753d3cc694eb9/aldor -Nfile=/repo/aldor/aldor/src/aldor.conf -I/repo/aldor/lib/aldor/include -Y/verif/build/2ff753d3cc694eb9/aldorlib -Y/verif/build/2ff753d3cc694eb9/foam -Q0 -Ginterp case.as
/verif/build/2ff753d3cc694eb9/aldor -Nfile=/repo/aldor/aldor/src/aldor.conf -I/repo/aldor/lib/aldor/include -Y/verif/build/2ff753d3cc694eb9/aldorlib -Y/verif/build/2ff753d3cc694eb9/foam -Q0 -Fc -Fmain case.as && gcc -w -O0 -I/verif/build/2ff753d3cc694eb9/src case*.c /verif/build/2ff753d3cc694eb9/aldorlib/libaldor.a /verif/build/2ff753d3cc694eb9/foam/libfoam.a -lm -o case.exe && ./case.exe
