#include "aldor"
#include "aldorio"
import from Boolean, String, Character, TextWriter;
define VExnA: Category == with;
VExA: VExnA == add;
define VExnB: Category == with;
VExB: VExnB == add;
pIMI(t: String, x: MachineInteger): () == { stdout << t << x << newline; }
pIBI(t: String, x: Integer): () == { stdout << t << x << newline; }
pL(t: String, x: Boolean): () == { stdout << t << x << newline; }
pS(t: String, x: String): () == { stdout << t << x << newline; }

mvp4543(n: MachineInteger): (MachineInteger, MachineInteger) == { import from MachineInteger; (n, n + 1) }
mvt4543(n: MachineInteger): (MachineInteger, MachineInteger) == { import from MachineInteger; n > 2 => throw VExA; n = 1 => throw VExB; (n * 10, n) }
c4543(): () == {
	import from MachineInteger;
	for i in 1..5 repeat {
		r: MachineInteger := try { try { (a, b) := mvt4543(i); a + b } catch E in { E has VExnB => -2; throw E } finally pIMI("K4543:", 77) } catch F in { F has VExnA => -1; throw F };
		pIMI("K4543:", r);
	}
}

c4543();
