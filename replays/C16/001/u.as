#include "aldor"
#include "aldorio"
import from Boolean, String, Character, TextWriter;
define VExnA: Category == with;
VExA: VExnA == add;
define VExnB: Category == with;
VExB: VExnB == add;
pIMI(t: String, x: MachineInteger): () == { stdout << t << x << newline; }
pIBI(t: String, x: Integer): () == { stdout << t << x << newline; }
pL(t: String, x: Boolean): () == { stdout << t << x << newline; }
pS(t: String, x: String): () == { stdout << t << x << newline; }

c0(): () == {
	import from MachineInteger;
	w(): MachineInteger == {
		s: MachineInteger := 0;
		for i in 1..6 repeat {
			s := (s + (i * 2));
		};
		(s + 100000)
	};
	pIMI("K0:", w());
}

c1(): () == {
	import from MachineInteger;
	w(): MachineInteger == {
		s: MachineInteger := 0;
		for i in 1..0 repeat {
			s := (s + (i * 2));
		};
		(s + 100000)
	};
	pIMI("K1:", w());
}

c2(): () == {
	import from MachineInteger;
	w(): MachineInteger == {
		s: MachineInteger := 0;
		for i in 3..3 repeat {
			s := (s + (i * 2));
		};
		(s + 100000)
	};
	pIMI("K2:", w());
}

c3(): () == {
	import from MachineInteger;
	w(): MachineInteger == {
		s: MachineInteger := 0;
		i0: MachineInteger := 1;
		while (i0 <= 6) repeat {
			i: MachineInteger := i0;
			i0 := (i0 + 1);
			s := (s + (i * 2));
		};
		(s + 100000)
	};
	pIMI("K3:", w());
}

c4(): () == {
	import from MachineInteger;
	w(): MachineInteger == {
		s: MachineInteger := 0;
		i0: MachineInteger := 1;
		while (i0 <= 0) repeat {
			i: MachineInteger := i0;
			i0 := (i0 + 1);
			s := (s + (i * 2));
		};
		(s + 100000)
	};
	pIMI("K4:", w());
}

c5(): () == {
	import from MachineInteger;
	w(): MachineInteger == {
		s: MachineInteger := 0;
		i0: MachineInteger := 3;
		while (i0 <= 3) repeat {
			i: MachineInteger := i0;
			i0 := (i0 + 1);
			s := (s + (i * 2));
		};
		(s + 100000)
	};
	pIMI("K5:", w());
}

c6(): () == {
	import from MachineInteger;
	w(): MachineInteger == {
		s: MachineInteger := 0;
		li: List MachineInteger := [1, 2, 3, 4, 5, 6];
		for i in li repeat {
			s := (s + (i * 2));
		};
		(s + 100000)
	};
	pIMI("K6:", w());
}

c7(): () == {
	import from MachineInteger;
	w(): MachineInteger == {
		s: MachineInteger := 0;
		li: List MachineInteger := [];
		for i in li repeat {
			s := (s + (i * 2));
		};
		(s + 100000)
	};
	pIMI("K7:", w());
}

c8(): () == {
	import from MachineInteger;
	w(): MachineInteger == {
		s: MachineInteger := 0;
		for i in 1..6 repeat {
			s := ((s * 2) + 1);
		};
		(s + 100000)
	};
	pIMI("K8:", w());
}

c9(): () == {
	import from MachineInteger;
	w(): MachineInteger == {
		s: MachineInteger := 0;
		for i in 1..0 repeat {
			s := ((s * 2) + 1);
		};
		(s + 100000)
	};
	pIMI("K9:", w());
}

c10(): () == {
	import from MachineInteger;
	w(): MachineInteger == {
		s: MachineInteger := 0;
		for i in 3..3 repeat {
			s := ((s * 2) + 1);
		};
		(s + 100000)
	};
	pIMI("K10:", w());
}

c11(): () == {
	import from MachineInteger;
	w(): MachineInteger == {
		s: MachineInteger := 0;
		i0: MachineInteger := 1;
		while (i0 <= 6) repeat {
			i: MachineInteger := i0;
			i0 := (i0 + 1);
			s := ((s * 2) + 1);
		};
		(s + 100000)
	};
	pIMI("K11:", w());
}

c0();
c1();
c2();
c3();
c4();
c5();
c6();
c7();
c8();
c9();
c10();
c11();
