#!/bin/sh
# replay without the explorer; run from this directory
cd "$(dirname "$0")"
/verif/build/ab141f05600a9af8/aldor -Nfile=/repo/aldor/aldor/src/aldor.conf -I/repo/aldor/lib/aldor/include -Y/verif/build/ab141f05600a9af8/aldorlib -Y/verif/build/ab141f05600a9af8/foam -Q1 -Cold -Cidlen=0 -Csmax=0 -Clines -Fc -Fmain u.as
gcc -w -O0 -I/verif/build/ab141f05600a9af8/src -I. *.c /verif/build/ab141f05600a9af8/aldorlib/libaldor.a /verif/build/ab141f05600a9af8/foam/libfoam.a -lm -o u.exe && ./u.exe
