#!/bin/sh
# replay without the explorer; run from this directory
cd "$(dirname "$0")"
# kinds=java victim=java fault=write n=1
/verif/build/19601eadfc617869/aldor -Nfile=/repo/aldor/aldor/src/aldor.conf -I/repo/aldor/lib/aldor/include -Y/verif/build/19601eadfc617869/aldorlib -Y/verif/build/19601eadfc617869/foam -Fjava u.as
