#!/bin/sh
# replay without the explorer; run from this directory
cd "$(dirname "$0")"
# kinds=split:u001.c victim=split:u001.c fault=write(persistent) n=1
/verif/build/ad45f7e8726dc410/aldor -Nfile=/repo/aldor/aldor/src/aldor.conf -I/repo/aldor/lib/aldor/include -Y/verif/build/ad45f7e8726dc410/aldorlib -Y/verif/build/ad45f7e8726dc410/foam -Fc -Csmax=5 u.as
