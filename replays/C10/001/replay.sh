#!/bin/sh
# replay without the explorer; run from this directory
cd "$(dirname "$0")"
/verif/bin/vcheck harness c10 sweep 56575 56576 0
