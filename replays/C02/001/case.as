#include "aldor"
#include "aldorio"
import from Boolean, String, Character, TextWriter;
define VExnA: Category == with;
VExA: VExnA == add;
define VExnB: Category == with;
VExB: VExnB == add;
pIMI(t: String, x: MachineInteger): () == { stdout << t << x << newline; }
pIBI(t: String, x: Integer): () == { stdout << t << x << newline; }
pL(t: String, x: Boolean): () == { stdout << t << x << newline; }
pS(t: String, x: String): () == { stdout << t << x << newline; }

c4477(): () == {
	import from MachineInteger;
	n: MachineInteger := 10;
	h(a: MachineInteger): MachineInteger == {
		free n;
		t: MachineInteger := 0;
		for i in 1..3 repeat {
			n := (n + 1);
			t := (t + a);
		};
		t
	};
	pIMI("K4477:", h(n));
	pIMI("K4477:", n);
}

c4477();
