#!/bin/sh
# replay without the explorer; run from this directory
cd "$(dirname "$0")"
/verif/build/adb9d58cfa47977e/aldor -Nfile=/repo/aldor/aldor/src/aldor.conf -I/repo/aldor/lib/aldor/include -Y/verif/build/adb9d58cfa47977e/aldorlib -Y/verif/build/adb9d58cfa47977e/foam -Q0 -Fc -Fmain case.as && gcc -w -O0 -I/verif/build/adb9d58cfa47977e/gen -I/repo/aldor/aldor/src case*.c /verif/build/adb9d58cfa47977e/aldorlib/libaldor.a /verif/build/adb9d58cfa47977e/foam/libfoam.a -lm -o case.exe && ./case.exe
/verif/build/adb9d58cfa47977e/aldor -Nfile=/repo/aldor/aldor/src/aldor.conf -I/repo/aldor/lib/aldor/include -Y/verif/build/adb9d58cfa47977e/aldorlib -Y/verif/build/adb9d58cfa47977e/foam -Q9 -Qno-cfold -Ginterp case.as
