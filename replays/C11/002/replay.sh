#!/bin/sh
# replay without the explorer; run from this directory
cd "$(dirname "$0")"
# the recipes name the operands: P s k d = (-1)^s (2^k+d); D s n p = digit pattern p over n 16-bit places
/verif/bin/vcheck harness c11 power 70 0 1 | head -50
