#!/bin/sh
# replay without the explorer; run from this directory
cd "$(dirname "$0")"
# build u.as at -Q1 with the ALDOR_VERIF build of this tree, then:
ALDOR_VERIF_GC=None ./u.exe
