#include "aldor"
#include "aldorio"
import from MachineInteger;
Cell ==> Record(next: Pointer, val: MachineInteger);
import from Cell;
c: Cell := [nil$Pointer, 0];
for i in 1..100000 repeat c := [c pretend Pointer, i];
t: Cell := [nil$Pointer, 0];
for i in 1..1000 repeat t := [t pretend Pointer, i];
s: MachineInteger := 0; k: MachineInteger := 0;
p: Cell := c;
while not nil?(p.next) repeat { s := s + p.val; k := k + 1; p := (p.next) pretend Cell }
stdout << "K0:" << s << " " << k << newline;
