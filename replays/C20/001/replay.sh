#!/bin/sh
# replay without the explorer; run from this directory
cd "$(dirname "$0")"
/verif/bin/vcheck harness c20 table replay 0 0,0,0,2,8
