#!/bin/sh
# replay without the explorer; run from this directory
cd "$(dirname "$0")"
/verif/build/2480350e8cdc9e49/aldor -Nfile=/repo/aldor/aldor/src/aldor.conf -I/repo/aldor/lib/aldor/include -Y/verif/build/2480350e8cdc9e49/aldorlib -Y/verif/build/2480350e8cdc9e49/foam -Gloop < session.in
