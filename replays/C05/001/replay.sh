#!/bin/sh
# replay without the explorer; run from this directory
cd "$(dirname "$0")"
# compile u.as with -Q2 -Fao -Ffm -Fc -Flsp; regenerate from u.ao / u.fm in another directory; compare
