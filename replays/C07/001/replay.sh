#!/bin/sh
# replay without the explorer; run from this directory
cd "$(dirname "$0")"
/verif/build/0037a3a80e4aa18d/aldor -Nfile=/repo/aldor/aldor/src/aldor.conf t.as
