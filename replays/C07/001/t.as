#pile
f(a) ==
  a
fix =