fix by
