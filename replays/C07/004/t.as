add add
