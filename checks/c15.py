"""C15 — diagnostics point at the right file, line and column.
Faulty programs x insertion point x k inserted code-free lines (k crossing every width limit of the packed position)
x placement {same file, moved into an included file, renumbered by #line} x left padding of the faulty lines.
Oracle: same messages; every line at or after the insertion grows by exactly k; columns unchanged (padding: grow by the
padding, or saturate at the column field's maximum while the line stays right); included / renumbered constructs name
that file and line."""
import os, re, sys
from vlib.common import Check, run, pmap, VERIF, NCPU
from vlib.runners import mkdir, write

PID = 'C15'
PROGS = [
    ['f(x: T): T == {', '   y: T := g(x);', '   y', '}', 'z := undefinedA + 1;', 'w := 2;', 'v := undefinedB;'],
    ['a := 1;', 'h(n) == {', '   n > 0 => undefinedC;', '   k := (n + ;', '   n', '}', 'q := undefinedD'],
    ['D: with { m: % -> % } == add {', '   Rep == Q;', '   m(x: %): % == per(rep(x) + one);', '}', 'import from D;', 'r := m(undefinedE);'],
]
KS = [0, 1, 2, 7, 255, 256, 1023, 16383, 16384, 65535, 65536, 70000]
PADS = [0, 1, 100, 16382, 16383, 16384, 20000]
CMAX = (1 << 14) - 1


def parse(text):
    """-> [(file, line, col, message)] in report order"""
    out = []
    cur = None
    for l in text.split('\n'):
        m = re.match(r'"([^"]*)", line (\d+):', l)
        if m:
            cur = (m.group(1), int(m.group(2)))
            continue
        m = re.match(r'\[L(\d+) C(\d+)\] #\d+ \((\w[\w ]*)\) (.*)$', l)
        if m and cur:
            out.append((cur[0], int(m.group(1)), int(m.group(2)), m.group(3) + ':' + m.group(4)))
    return out


def main(tier):
    ck = Check(PID, 'exploration', tier)
    b = ck.build('aldor')
    base = b.base()
    jobs = []
    ks = KS if tier == 'thorough' else [0, 1, 7, 256, 16383, 16384, 65536, 70000]
    pads = PADS if tier == 'thorough' else [1, 100, 16382, 16383, 16384, 20000]
    for pi, prog in enumerate(PROGS):
        n = len(prog)
        jobs.append((pi, 'ref', 0, 0, 'same', 0))
        for ins in range(n):
            for k in ks:
                for filler in ('blank', 'comment'):
                    if filler == 'comment' and k > 300 and tier == 'quick':
                        continue
                    jobs.append((pi, 'insert-' + filler, ins, k, 'same', 0))
        for k in ks[:6]:
            jobs.append((pi, 'insert-blank', 2, k, 'include', 0))
            jobs.append((pi, 'insert-blank', 2, k, 'line', 0))
        for pad in pads:
            jobs.append((pi, 'pad', 0, 0, 'same', pad))

    def build_case(j, d):
        pi, kind, ins, k, place, pad = j
        prog = list(PROGS[pi])
        if pad:
            prog = [' ' * pad + l for l in prog]
        if kind.startswith('insert'):
            fill = [''] * k if kind.endswith('blank') else ['-- c%d' % i for i in range(k)]
            prog = prog[:ins] + fill + prog[ins:]
        if place == 'same':
            write(d + '/m.as', '\n'.join(prog) + '\n')
        elif place == 'include':
            write(d + '/inc.as', '\n'.join(prog) + '\n')
            write(d + '/m.as', 'first := 0;\n#include "inc.as"\nlast := 0;\n')
        else:
            write(d + '/other.as', '\n'.join([''] * 499 + prog) + '\n')
            write(d + '/m.as', 'first := 0;\n#line 500 "other.as"\n' + '\n'.join(prog) + '\n')

    chunks = [jobs[i::NCPU * 2] for i in range(NCPU * 2)]

    def work(ci):
        d = mkdir('%s/w%d' % (ck.work, ci))
        out = []
        for j in chunks[ci]:
            if ck.expired():
                return out, False
            for f in os.listdir(d):
                os.remove(d + '/' + f)
            build_case(j, d)
            r = run(base + ['-M', 'emax=200', 'm.as'], cwd=d, timeout=120, merge=True, norand=False)
            out.append((j, parse(r.text()), r.rc, r.timeout, r.text()[-400:]))
        return out, True

    res = {}
    for out, done in pmap(work, range(len(chunks)), n=NCPU):
        if not done:
            ck.cut('chunk not finished')
        for j, msgs, rc, to, tail in out:
            res[j] = (msgs, rc, to, tail)
            ck.count()
    for j, (msgs, rc, to, tail) in sorted(res.items()):
        pi, kind, ins, k, place, pad = j
        ref = res.get((pi, 'ref', 0, 0, 'same', 0))
        if kind == 'ref':
            if not ref[0]:
                ck.report('reference-has-no-diagnostics=prog%d' % pi, tail)
            continue
        if not ref or not ref[0]:
            continue
        want = []
        for (f, line, col, msg) in ref[0]:
            nl = line + (k if (kind.startswith('insert') and line - 1 >= ins) else 0)
            nc = col + pad
            nf = f
            if place == 'include':
                nf = 'inc.as'
            elif place == 'line':
                nf, nl = 'other.as', nl + 499
            want.append((nf, nl, nc, msg))
        if place in ('include', 'line'):
            got = [m for m in msgs if m[0] != 'm.as']       # the wrapper file's own lines are not under test
        else:
            got = msgs
        norm = lambda ms: sorted((f, l, min(c, CMAX), t) for f, l, c, t in ms)
        ok = norm(got) == norm(want)
        if not ok and pad and any(c > CMAX for _, _, c, _ in want):
            # beyond the 14-bit column field positions coincide, so the number of (de-duplicated) messages may change:
            # there, only file, line and the set of message texts are demanded
            ok = set((f, l, t) for f, l, c, t in got) == set((f, l, t) for f, l, c, t in want)
        if to:
            ok = False
        if ok:
            ck.nontrivial((pi, kind, ins, k, place, pad))
        else:
            d = mkdir('%s/rep' % ck.work)
            for f in os.listdir(d):
                os.remove(d + '/' + f)
            build_case(j, d)
            files = {}
            if k < 2000 and pad < 2000:
                files = {f: open(d + '/' + f).read() for f in os.listdir(d)}
            files['case.txt'] = 'prog=%d kind=%s insert-before-line=%d k=%d placement=%s pad=%d\n' % j
            diff = [(g, w) for g, w in zip(norm(got), norm(want)) if g != w][:4]
            key = 'prog=%d,%s,place=%s,%s' % (pi, kind, place, ('k>=16384' if k >= 16384 else 'k<16384') if kind.startswith('insert') else ('pad>=16383' if pad >= 16383 else 'pad<16383'))
            ck.report(key, 'prog %d %s k=%d at line %d placement %s pad %d: %d messages (want %d); first differences (got, want): %s' % (pi, kind, k, ins + 1, place, pad, len(got), len(want), diff), files=files)
    ck.cov.update({
        'rule': '%d faulty programs x every insertion point x k in %s blank or comment lines x placement {same file, included file, #line} x left padding in %s; '
                'each reported (file, line, column, text) compared with the shifted reference; distinct = placements that shifted exactly' % (len(PROGS), ks, pads),
        'samples': ['prog 0 with 16384 blank lines inserted before line 5', 'prog 1 padded by 16383 columns', 'prog 2 inside inc.as'],
    })
    ck.assumptions += ['a column beyond the 14-bit field may be reported as the field maximum (16383) as long as the line is right']
    ck.finish()


if __name__ == '__main__':
    main(sys.argv[1] if len(sys.argv) > 1 else 'quick')
