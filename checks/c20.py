"""C20 — containers and the boolean normal form behave as their models.
Explicit-state exploration: every operation sequence up to a depth bound is replayed on the real
module (table.c btree.c priq.c bitv.c dnf.c from the working tree) and compared with a reference model."""
import os, re, sys
from vlib.common import Check, run, pmap, NCPU
from vlib import cmodel

PID = 'C20'

# B-tree seeds >= 1000 mean 1000*t + prefill: minimum degree t = 3 (nodes of 2..5 keys) and t = 16 (the degree store.c uses for
# its free tree, nodes of 15..31 keys), prefilled to a full root, a root that has just split (children at minimum, so a delete
# merges or borrows) and children filling up again
BT3 = [3005, 3006, 3011, 3017, 3023, 3029]
BT16 = [16031, 16032, 16047]
# (mode, depth, seeds) per tier
PLAN = {
    'quick': [('table', 5, [0, 33, 34, 35, 36]), ('btree', 7, [0, 9, 20]), ('btree', 5, BT3), ('btree', 4, BT16), ('priq', 8, [0, 5]),
              ('bitv', 0, [0]), ('dnf', 3, [0]), ('dnf10', 0, [0])],
    'thorough': [('table', 6, [0, 33, 34, 35, 36]), ('btree', 8, [0, 9, 20]), ('btree', 6, BT3), ('btree', 5, BT16), ('priq', 10, [0, 5]),
                 ('bitv', 0, [0]), ('dnf', 3, [0]), ('dnf10', 0, [0])],
}
SHARDED = {'table', 'btree', 'priq', 'dnf'}


def main(tier):
    ck = Check(PID, 'model_checking', tier)
    b = ck.build('aldor')
    try:
        h = cmodel.harness(b, 'c20')
    except Exception as e:
        ck.build_failed = str(e)
        print('BUILD FAILED (no property verdict):', e)
        ck.finish()
    jobs = []
    for mode, depth, seeds in PLAN[tier]:
        for seed in seeds:
            n = NCPU if (mode in SHARDED and depth >= 2) else 1
            for s in range(n):
                jobs.append((mode, depth, seed, s, n))
    tot = {'sequences': 0, 'steps': 0, 'outcomes': 0}
    permode = {}

    def one(j):
        mode, depth, seed, s, n = j
        if ck.expired():
            return j, None
        r = run([h, mode, str(depth), str(seed), str(s), str(n)], timeout=max(60, ck.deadline_s), norand=False)
        return j, r

    for j, r in pmap(one, jobs):
        mode, depth, seed, s, n = j
        if r is None:
            ck.cut('%s depth %d seed %d shard %d not run' % (mode, depth, seed, s))
            continue
        text = r.text()
        stat = re.search(r'STAT mode=\S+ sequences=(\d+) steps=(\d+) outcomes=(\d+) violations=(\d+)', text)
        viols = re.findall(r'^VIOL (.*)$', text, re.M)
        seqs = re.findall(r'^VIOLSEQ mode=(\S+) seed=(\d+) ops=(\S*)$', text, re.M)
        if stat:
            a, bb, c, d = map(int, stat.groups())
            pm = permode.setdefault(mode + ('' if seed < 1000 else '-t%d' % (seed // 1000)), {'sequences': 0, 'steps': 0, 'outcomes': 0, 'depth': depth, 'seeds': set()})
            pm['sequences'] += a; pm['steps'] += bb; pm['outcomes'] += c; pm['seeds'].add(seed)
            tot['sequences'] += a; tot['steps'] += bb; tot['outcomes'] += c
        for km in re.finditer(r'^KNOWN mode=(\S+) cause=(\S+) count=(\d+) first=(.*)$', text, re.M):
            # wrong results that the simulation of the recorded defect reproduces exactly
            ck.report('module=dnf,cause=%s' % km.group(2), 'e.g. ' + km.group(4)[:300])
        if r.timeout:
            ck.cut('%s depth %d seed %d shard %d timed out' % (mode, depth, seed, s))
            continue
        if viols or r.rc != 0 or not stat:
            kinds = sorted(set(re.findall(r'kind=(\S+)', '\n'.join(viols)))) or ['harness-exit-%s' % r.rc]
            key = 'module=%s,kind=%s' % (mode, '+'.join(kinds[:3]))
            ops = seqs[0][2] if seqs else ''
            m = re.search(r'kind=crash.*ops=(\S*)', text)
            if m:
                ops = m.group(1)
            cmds = []
            if mode in ('table', 'btree', 'priq'):
                cmds = ['%s/bin/vcheck harness c20 %s replay %d %s' % (ck_verif(), mode, seed, ops)]
            else:
                cmds = ['%s/bin/vcheck harness c20 %s %d %d' % (ck_verif(), mode, depth, seed)]
            ck.report(key, '%s seed=%d first failing ops=%s\n%s' % (mode, seed, ops, '\n'.join(viols[:10]) or text[-500:]),
                      files={'ops.txt': 'mode=%s seed=%d ops=%s\n' % (mode, seed, ops), 'output.txt': text[-5000:]},
                      cmds=cmds)
    ck.cov.update({
        'states': tot['sequences'], 'transitions': tot['steps'],
        'traces_validated_against_impl': tot['sequences'],
        'evaluations': tot['sequences'], 'distinct_nontrivial': tot['outcomes'],
        'rule': 'every operation sequence up to the depth bound over the module alphabet is replayed on the real module '
                'and compared with the reference model after each step; distinct = distinct observed result traces '
                '(hash of returned values and sizes, per shard)',
        'per_module': {m: {'depth': v['depth'], 'seeds': sorted(v['seeds']), 'sequences': v['sequences'],
                           'steps': v['steps'], 'distinct_outcomes': v['outcomes']} for m, v in permode.items()},
        'samples': [
            {'module': 'table', 'seed_entries': 35, 'ops': 'set k0; set k2 (same hash); get k0; drop k2; copy',
             'encoding': '0-3 set, 4-7 get, 8-11 drop, 12 copy, 13 drop prefilled, 14 add spread key'},
            {'module': 'btree', 't': '2, 3 and 16', 'ops': 'insert 1..6 / delete present key; check, in-order walk, searchEQ/GE, min, max after each'},
            {'module': 'dnf', 'atoms': 4, 'formula': '(x1 and x2) or (not x1 and not x2) compared with its 16-row truth table'},
        ],
    })
    ck.assumptions += ['reference models in vlib/cmodel/c20.c (arrays / multisets / truth tables) are correct',
                       'modules are linked from the objects built from the working tree (libcomp.a)']
    ck.finish()


def ck_verif():
    from vlib.common import VERIF
    return VERIF


if __name__ == '__main__':
    main(sys.argv[1] if len(sys.argv) > 1 else 'quick')
