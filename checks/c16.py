"""C16 — generated C is valid under every C-generation option.
Two-module programs (library + client, both split, one directory) for module-name pairs with and without a shared prefix.
Units x the full option product {-Cold, -Cstandard} x idlen {0,30,31,40,64} x smax {0,1,5,50} x {lines, no-lines}:
every emitted file must compile, the link against the rebuilt runtime must succeed, the executable must print what the
default build prints; in the emitted text no file-scope C identifier is defined twice and distinct exported entities
never share a C name (names family: identifiers sharing prefixes of every length 20..80)."""
import os, re, sys, itertools, shutil
from vlib.common import Check, run, pmap, VERIF, NCPU
from vlib import families, progspace, progrun
from vlib.runners import TC, mkdir, write

PID = 'C16'


def names_unit(L, n):
    """n exported functions whose names share exactly the first L characters"""
    pre = 'v' + 'q' * (L - 1)
    tails = ['Alpha', 'Beta', 'Gamma', 'Delta', 'Epsil'][:n]
    body = progspace.PRELUDE + 'import from MachineInteger;\n'
    for i, t in enumerate(tails):
        body += '%s%s(x: MachineInteger): MachineInteger == x + %d;\n' % (pre, t, i + 1)
    for i, t in enumerate(tails):
        body += 'pIMI("K0:", %s%s(%d));\n' % (pre, t, 10 * i)
    exp = ['K0:%d' % (10 * i + i + 1) for i in range(n)]
    return body, exp


def opname_unit():
    body = progspace.PRELUDE + '''import from MachineInteger;
VOps: with { +: (%, %) -> %; *: (%, %) -> %; -: % -> %; =: (%, %) -> Boolean; <<: (%, MachineInteger) -> %; apply: (%, MachineInteger) -> MachineInteger; mk: MachineInteger -> %; v: % -> MachineInteger; ~=: (%,%) -> Boolean; <: (%,%) -> Boolean; /\\: (%,%) -> % } == add {
	Rep == MachineInteger; import from Rep;
	mk(n: MachineInteger): % == per n; v(x: %): MachineInteger == rep x;
	(a: %) + (b: %): % == per(rep a + rep b + 1000);
	(a: %) * (b: %): % == per(rep a * rep b + 2000);
	-(a: %): % == per(3000 - rep a);
	(a: %) = (b: %): Boolean == rep a = rep b;
	(a: %) ~= (b: %): Boolean == rep a ~= rep b;
	(a: %) < (b: %): Boolean == rep a < rep b;
	(a: %) /\\ (b: %): % == per(rep a + 7 * rep b);
	(a: %) << (n: MachineInteger): % == per(rep a + n + 4000);
	apply(a: %, n: MachineInteger): MachineInteger == rep a * n;
}
import from VOps;
pIMI("K0:", v(mk 1 + mk 2));
pIMI("K0:", v(mk 3 * mk 4));
pIMI("K0:", v(-(mk 5)));
pL("K0:", mk 1 = mk 1);
pL("K0:", mk 1 ~= mk 1);
pL("K0:", mk 1 < mk 2);
pIMI("K0:", v(mk 1 /\\ mk 2));
pIMI("K0:", v(mk 1 << 2));
pIMI("K0:", (mk 6)(7));
'''
    return body, ['K0:1003', 'K0:2012', 'K0:2995', 'K0:T', 'K0:F', 'K0:T', 'K0:15', 'K0:4003', 'K0:42']


def globals_unit(n=120):
    body = progspace.PRELUDE + 'import from MachineInteger;\n'
    for i in range(n):
        body += 'gfun%d(x: MachineInteger): MachineInteger == x + %d;\n' % (i, i)
    body += 'gs: MachineInteger := 0;\n' + ''.join('gs := gs + gfun%d(1);\n' % i for i in range(n)) + 'pIMI("K0:", gs);\n'
    return body, ['K0:%d' % (n + n * (n - 1) // 2)]


def main(tier):
    ck = Check(PID, 'exploration', tier, deadline_s=900 if tier == 'quick' else 3000)
    b = ck.build('aldor', 'foam', 'libaldor')
    tc = TC(b)
    units = []      # (name, text, expected lines)
    cases = families.all_cases('quick', ['F3', 'F4', 'F5', 'F6', 'F7', 'F9', 'F10', 'F8', 'F2', 'F1'])
    byfam = {}
    for f, c in cases:
        byfam.setdefault(f, []).append((f, c))
    fams = ['F3', 'F7', 'F9', 'F5'] if tier == 'quick' else sorted(byfam)
    for f in fams:
        cs = byfam[f][:12]
        u = (0, cs)
        exp = progrun.unit_expected(u)
        units.append(('fam' + f, progrun.unit_text(u), [l for k in sorted(exp) for l in exp[k]]))
    Ls = (20, 29, 30, 31, 40, 64, 80) if tier == 'quick' else tuple(range(20, 81))
    for L in Ls:
        for n in ((3,) if tier == 'quick' else (2, 3, 5)):
            t, e = names_unit(L, n)
            units.append(('names-L%d-n%d' % (L, n), t, e))
    t, e = opname_unit()
    units.append(('opnames', t, e))
    t, e = globals_unit(120 if tier == 'quick' else 300)
    units.append(('globals', t, e))
    full = list(itertools.product(['-Cold', '-Cstandard'], [0, 30, 31, 40, 64], [0, 1, 5, 50], ['-Clines', '-Cno-lines']))
    jobs = []
    for ui, (name, text, exp) in enumerate(units):
        if name.startswith('names') and tier == 'quick':
            opts = [o for o in full if o[2] in (0, 5) and o[3] == '-Clines']
        elif tier == 'quick' and not name.startswith('famF3'):
            opts = [o for o in full if o[2] in (0, 1) or o[1] == 30]
        else:
            opts = full
        for o in opts:
            jobs.append((ui, o))

    # statement-limit sweep: the largest -Csmax that still splits the unit is found by bisection, then every value in a window
    # around it is built and run, so that the boundary between "split" and "not split" (where the separate decisions of the
    # emitter have to agree) is crossed value by value
    sweep_units = [ui for ui, u in enumerate(units) if u[0] in ('opnames', 'famF3') or (tier == 'thorough' and not u[0].startswith('names-L') or u[0] == 'names-L30-n3')]

    def splits(ui, smax):
        d = mkdir('%s/bis-%d-%d' % (ck.work, ui, smax))
        write(d + '/u.as', units[ui][1])
        r = tc.aldor(['-Q1', '-Cstandard', '-Cidlen=30', '-Csmax=%d' % smax, '-Cno-lines', '-Fc', 'u.as'], d, timeout=200)
        n = len([f for f in os.listdir(d) if f.endswith('.c')])
        shutil.rmtree(d, ignore_errors=True)
        return r.rc == 0 and n > 1

    def boundary(ui):
        lo, hi = 1, 1 << 16          # splits at lo, does not split at hi
        if not splits(ui, lo) or splits(ui, hi):
            return ui, None
        while hi - lo > 1:
            mid = (lo + hi) // 2
            if splits(ui, mid):
                lo = mid
            else:
                hi = mid
        return ui, lo
    bounds = dict(pmap(boundary, sweep_units))
    for ui in sweep_units:
        if bounds.get(ui) is None:
            ck.cut('no split boundary found for %s' % units[ui][0])
            continue
        for std in (('-Cstandard',) if tier == 'quick' else ('-Cstandard', '-Cold')):
            for smax in range(max(1, bounds[ui] - 30), bounds[ui] + 90):
                jobs.append((ui, (std, 30, smax, '-Cno-lines')))
    jobs = list(dict.fromkeys(jobs))
    nfiles_by = {}

    def one(j):
        ui, (std, idlen, smax, lines) = j
        name, text, exp = units[ui]
        if ck.expired():
            return j, None
        d = mkdir('%s/%s-%s-%d-%d-%s' % (ck.work, name, std, idlen, smax, lines))
        write(d + '/u.as', text)
        r = tc.aldor(['-Q1', std, '-Cidlen=%d' % idlen, '-Csmax=%d' % smax, lines, '-Fc', '-Fmain', 'u.as'], d, timeout=200)
        res = {'step': 'aldor', 'rc': r.rc, 'tail': r.text()[-400:]}
        if r.rc == 0 and not r.timeout:
            cs = sorted(f for f in os.listdir(d) if f.endswith('.c'))
            res['nfiles'] = len(cs)
            alltext = ''.join(open(d + '/' + f, errors='replace').read() for f in cs)
            res['imports'] = re.findall(r'fiImportGlobal\("([^"]*)"', alltext)
            exports = re.findall(r'fiExportGlobal\("([^"]*)"', alltext)
            res['dup_exports'] = sorted(set(x for x in exports if exports.count(x) > 1))
            g = tc.cc(d, cs, 'u.exe', timeout=300, ccflags=['-I.'])
            res.update(step='gcc', rc=g.rc, tail=g.text()[-600:])
            if g.rc == 0:
                x = tc.runexe(d + '/u.exe', timeout=60)
                got = [l for l in x.text().split('\n') if re.match(r'K\d+:', l)]
                res.update(step='run', rc=x.rc, sig=x.sig, tail=x.text()[-300:], got=got)
        shutil.rmtree(d, ignore_errors=True)
        return j, res

    for j, res in pmap(one, jobs):
        ui, (std, idlen, smax, lines) = j
        name, text, exp = units[ui]
        if res is None:
            ck.cut('configuration not run')
            continue
        ck.count()
        if 'nfiles' in res and idlen == 30 and lines == '-Cno-lines':
            nfiles_by.setdefault((ui, std), {})[smax] = res['nfiles']
        cfg = '%s,idlen=%d,smax=%d,%s' % (std, idlen, smax, lines)
        ok = res['step'] == 'run' and res['rc'] == 0 and res.get('got') == exp and not res.get('dup_exports')
        if ok:
            ck.nontrivial((name, cfg))
            continue
        # known cause: identifier limit differs from the one the libraries were built with (30): names of imported library
        # globals are truncated differently and are looked up by string at run time
        longimp = [x for x in res.get('imports', []) if len(x) >= 30]
        if idlen != 30 and res['step'] == 'run' and res.get('sig') and longimp and not res.get('dup_exports'):
            key = 'cause=imported-library-global-longer-than-idlen,idlen=%d' % idlen
        elif res.get('dup_exports'):
            key = 'duplicate-c-name,unit=%s,idlen=%d' % (name.split('-n')[0], idlen)
        else:
            key = 'unit=%s,step=%s,%s' % (name, res['step'], cfg)
        ck.report(key, '%s under %s: step %s rc=%s dup=%s\n got %s\n want %s\n%s' % (name, cfg, res['step'], res['rc'], res.get('dup_exports'), res.get('got', [])[:8], exp[:8], res['tail']),
                  files={'u.as': text},
                  cmds=[' '.join(tc.b.base() + tc.flags + ['-Q1', std, '-Cidlen=%d' % idlen, '-Csmax=%d' % smax, lines, '-Fc', '-Fmain', 'u.as']),
                        'gcc %s -I. *.c %s -o u.exe && ./u.exe' % (' '.join(tc.b.cflags()), ' '.join(tc.link))])
    # two separately compiled modules, both split, emitted into one directory (the normal layout of a multi-file program)
    HEAD = '#include "aldor"\n#include "aldorio"\n'
    pairs = [('alpha', 'bravo'), ('modulea', 'moduleb'), ('abcde', 'abcdef'), ('m', 'mm')]

    def twomod(j):
        (la, cl), std, smax = j
        if ck.expired():
            return j, None
        d = mkdir('%s/two-%s-%s-%s-%d' % (ck.work, la, cl, std, smax))
        write('%s/%s.as' % (d, la), HEAD + 'VD1: with { f1: MachineInteger -> MachineInteger; g1: MachineInteger -> MachineInteger } == add { import from MachineInteger; '
              'f1(n: MachineInteger): MachineInteger == n + 1; g1(n: MachineInteger): MachineInteger == n * 2 }\n')
        write('%s/%s.as' % (d, cl), HEAD + '#library LA "%s.ao"\nimport from LA;\nimport from MachineInteger, VD1;\nh(n: MachineInteger): MachineInteger == f1 n + g1 n;\n'
              'stdout << "K0:" << h 5 << newline;\n' % la)
        r = tc.aldor(['-Q1', std, '-Csmax=%d' % smax, '-Fao', '-Fc', la + '.as'], d, timeout=200)
        res = {'step': 'aldor-library', 'rc': r.rc, 'tail': r.text()[-300:]}
        if r.rc == 0:
            r = tc.aldor(['-Q1', std, '-Csmax=%d' % smax, '-Y.', '-Fc', '-Fmain', cl + '.as'], d, timeout=200)
            res = {'step': 'aldor-client', 'rc': r.rc, 'tail': r.text()[-300:]}
        if r.rc == 0:
            cs = sorted(f for f in os.listdir(d) if f.endswith('.c'))
            g = tc.cc(d, cs, 'u.exe', timeout=300, ccflags=['-I.'])
            res = {'step': 'gcc', 'rc': g.rc, 'tail': g.text()[-500:]}
            if g.rc == 0:
                x = tc.runexe(d + '/u.exe', timeout=60)
                res = {'step': 'run', 'rc': x.rc, 'tail': x.text()[-300:], 'got': [l for l in x.text().split('\n') if l.startswith('K0:')]}
        shutil.rmtree(d, ignore_errors=True)
        return j, res
    tjobs = [(pr, std, smax) for pr in pairs for std in ('-Cstandard', '-Cold') for smax in (0, 1, 5, 50)]
    for j, res in pmap(twomod, tjobs):
        (la, cl), std, smax = j
        if res is None:
            ck.cut('two-module configuration not run')
            continue
        ck.count()
        if res['step'] == 'run' and res['rc'] == 0 and res.get('got') == ['K0:16']:
            ck.nontrivial(('two', la, cl, std, smax))
            continue
        if smax > 0 and la[:5] == cl[:5]:
            key = 'cause=split-sibling-files-of-two-modules-collide,first-5-characters-shared'
        else:
            key = 'two-modules=%s+%s,step=%s,%s,smax=%d' % (la, cl, res['step'], std, smax)
        ck.report(key, 'modules %s.as and %s.as compiled with %s -Csmax=%d into one directory: step %s rc=%s got %s want K0:16\n%s' % (la, cl, std, smax, res['step'], res['rc'], res.get('got'), res['tail']),
                  files={'README-two.txt': 'library module %s.as, client module %s.as (texts are in checks/c16.py, twomod)\n' % (la, cl)})
    sweeps = []
    for ui in sweep_units:
        for std, m in sorted((k[1], v) for k, v in nfiles_by.items() if k[0] == ui):
            sweeps.append({'unit': units[ui][0], 'std': std, 'largest_smax_that_splits': bounds.get(ui), 'values_built_and_run': len([k for k in m if k >= 1])})
    ck.cov['smax_sweeps'] = sweeps
    ck.cov.update({
        'rule': '%d units (family units, names sharing prefixes of length %s, operator-character names, %s globals) x C-generation option product (80 configurations; quick: a '
                'fixed sub-product per unit kind), plus every -Csmax value in a window of 120 around the split boundary of each sweep unit; gcc must accept every file, link must succeed, output must equal the expected text, exported C names must be unique; '
                'distinct = (unit, configuration) pairs that built and ran correctly' % (len(units), list(Ls), 120 if tier == 'quick' else 300),
        'configurations_run': len(jobs),
        'samples': ['names-L30-n3 under -Cold,idlen=30,smax=5,-Clines', 'opnames under -Cstandard,idlen=0,smax=1,-Cno-lines'],
    })
    ck.assumptions += ['gcc with the flags the toolchain itself uses (-w -O0) is the judge of validity']
    ck.finish()


if __name__ == '__main__':
    main(sys.argv[1] if len(sys.argv) > 1 else 'quick')
