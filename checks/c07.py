"""C07 — the compiler is total on arbitrary source text and reports honestly.
(a) every string of length <= n over a 24-symbol alphabet of token-class representatives;
(b) every single token-level edit (delete, duplicate, swap, insert one of 14 trouble tokens at every position) of seed sources;
(c) structural extremes (nesting depth, line length, error count around 256, unterminated string / comment at every line end).
Oracle: terminates, no signal / fault / internal-bug report, exit status non-zero exactly when an error was printed,
every diagnostic line carries readable text,
and an input that cannot be a program (unbalanced brackets, unterminated string) prints at least one error."""
import os, re, sys, itertools, hashlib
from vlib.common import Check, run, pmap, VERIF, NCPU
from vlib import faults, families, progspace
from vlib.runners import mkdir, write

PID = 'C07'
ALPHA = [b'x', b'1', b'"s"', b'(', b')', b'{', b'}', b'[', b']', b',', b';', b':', b':=', b'==', b'=>', b'+', b'->', b'.', b'_', b'#', b'\n', b' ', b'\x80', b'\x00']
TROUBLE = ['(', ')', '{', '}', '[', ']', '"', ';', ',', ':=', '==', '=>', '#pile', '_']

UNTYPED_SEEDS = [
    'f(x: T): T == {\n\ty: T := g(x, 1);\n\tif y > 0 then return y;\n\tfor i in 1..3 repeat { y := y + i; i = 2 => iterate; }\n\ty\n}\n',
    'D(T: C): with { a: % -> T; b: (T, T) -> % } == add {\n\tRep == Record(u: T, v: T);\n\ta(x: %): T == rep(x).u;\n\tb(p: T, q: T): % == per [p, q];\n}\n',
    '#if A\nx := 1;\n#else\nx := 2;\n#endif\n#pile\nf(n) ==\n  n = 0 => 1\n  n * f(n-1)\n#endpile\ny := "s" + x;\n',
    'define C: Category == with { f: % -> %; default { f(x: %): % == x } }\ng: MachineInteger -> MachineInteger := (z: MachineInteger): MachineInteger +-> z + 1;\ntry h() catch E in { E has X => 1; never } finally k();\n',
]


def keyword_table(path):
    """spellings of all keyword and operator tokens, read from the token table of the tree under test"""
    out = []
    for m in re.finditer(r'\{KW_\w+,\s*0,\s*"((?:\\.|[^"\\])*)"', open(path).read()):
        t = re.sub(r'\\(.)', r'\1', m.group(1))
        if t.startswith('KW_') or t == 'n':
            continue
        out.append(t)
    return out


def typed_seeds():
    cs = families.all_cases('quick', ['F7', 'F9', 'F5'])
    pick = [cs[0][1], [c for f, c in cs if f == 'F9'][0]]
    return [progspace.render_unit([c], i) for i, c in enumerate(pick)]


TOK = re.compile(r'"(?:_.|[^"\n])*"|[A-Za-z%][A-Za-z0-9_?!]*|\d+|:=|==>|==|=>|\+->|->|\.\.|<<|>=|<=|~=|\n|[ \t]+|.', re.S)


def mutants(src):
    toks = TOK.findall(src)
    idx = [i for i, t in enumerate(toks) if not t.isspace() or t == '\n']
    out = []
    for i in idx:
        out.append(('del@%d' % i, ''.join(toks[:i] + toks[i + 1:])))
        out.append(('dup@%d' % i, ''.join(toks[:i] + [toks[i], ' ', toks[i]] + toks[i + 1:])))
        for t in TROUBLE:
            out.append(('ins%s@%d' % (t, i), ''.join(toks[:i] + [t, ' '] + toks[i:])))
    for a, b in zip(idx, idx[1:]):
        out.append(('swap@%d' % a, ''.join(toks[:a] + [toks[b]] + toks[a + 1:b] + [toks[a]] + toks[b + 1:])))
    return out


MSGLINE = re.compile(r'\((?:Error|Fatal Error|Warning)\)([^\n]*)')


def unreadable_message(t, data):
    """a diagnostic whose text is empty or contains bytes that are neither printable ASCII nor present in the input"""
    src = set(data)
    for m in MSGLINE.finditer(t):
        body = m.group(1)
        if not re.search(r'[A-Za-z]', body):
            return True
        for ch in body:
            o = ord(ch)
            if (o < 32 and ch != '\t') or o >= 127:
                if o not in src:
                    return True
    return False


def surely_invalid(text):
    """text that cannot be a program: bracket counts differ outside strings/comments, or a string is left open"""
    t = re.sub(r'"(?:_.|[^"\n])*"', '""', text)
    t = re.sub(r'(--|\+\+)[^\n]*', '', t)
    if t.count('"') % 2 == 1:
        return True
    return t.count('(') != t.count(')') or t.count('[') != t.count(']') or t.count('{') != t.count('}')


def main(tier):
    ck = Check(PID, 'exploration', tier, deadline_s=900 if tier == 'quick' else 3000)
    b = ck.build('aldor', 'foam', 'libaldor')
    base = b.base()
    lib = b.aldor_flags()
    inputs = []       # (label, bytes, typed?, must_be_invalid)
    n = 3 if tier == 'quick' else 4
    for k in range(1, n + 1):
        for t in itertools.product(range(len(ALPHA)), repeat=k):
            data = b''.join(ALPHA[i] for i in t)
            inputs.append(('str:' + '.'.join(map(str, t)), data, False, False))
    nstr = len(inputs)
    for si, s in enumerate(UNTYPED_SEEDS):
        inputs.append(('seed%d' % si, s.encode(), False, False))
        for lab, m in mutants(s):
            inputs.append(('seed%d:%s' % (si, lab), m.encode(), False, surely_invalid(m) and not surely_invalid(s)))
    tseeds = typed_seeds() if tier == 'thorough' else typed_seeds()[:1]
    for si, s in enumerate(tseeds):
        inputs.append(('tseed%d' % si, s.encode(), True, False))
        ms = mutants(s[len(progspace.PRELUDE):])
        if tier == 'quick':
            ms = [m for m in ms if m[0].startswith(('del@', 'swap@', 'ins(@', 'ins}@', 'ins"@'))]
        for lab, m in ms:
            inputs.append(('tseed%d:%s' % (si, lab), (progspace.PRELUDE + m).encode(), True, False))
            # the same input with the detail part of messages switched off (label prefix nd: adds -Mno-details)
            inputs.append(('nd:tseed%d:%s' % (si, lab), (progspace.PRELUDE + m).encode(), True, False))
    # every keyword and operator of the token table, alone and in pairs, at the start of a file, after a statement, at the
    # start of a line inside a #pile section and after an opening brace there, with and without a final newline
    kws = keyword_table(b.B + '/src/token.c') + ['x', '1', '1.5', '"s"']
    ctxs = [('start', ''), ('pile-line', '#pile\nf(a) ==\n  a\n'), ('stmt', 'x := 1;\n'), ('pile-brace', '#pile\nf(a) == {')]
    nkw0 = len(inputs)
    for cn, pre in ctxs:
        for end in ('', '\n'):
            for a in kws:
                inputs.append(('kw:%s:%s:%s' % (cn, 'nl' if end else 'eof', a), (pre + a + end).encode(), False, False))
            if tier == 'thorough' or cn in ('start', 'pile-line'):
                for a in kws:
                    for c in kws:
                        inputs.append(('kw:%s:%s:%s %s' % (cn, 'nl' if end else 'eof', a, c), (pre + a + ' ' + c + end).encode(), False, False))
    nkw = len(inputs) - nkw0
    # macros that refer to themselves: plain and parameterised, direct and through a second macro, used once and twice
    for nm, text in [('plain', 'macro m == m;\na := m;\n'), ('param', 'macro f(x) == f(x);\na := f(1);\n'), ('param2', 'macro f(x) == g(x);\nmacro g(x) == f(x);\na := f(1);\n'),
                     ('param-grow', 'macro f(x) == f(x, x);\na := f(1);\n'), ('param-twice', 'macro f(x) == f(x) + f(x);\na := f(1);\nb := f(2);\n'),
                     ('arrow', 'f(x) ==> f(x);\na := f(1);\n'), ('nested', 'macro f(x) == { macro g(y) == f(y); g(x) };\na := f(1);\n')]:
        inputs.append(('macro-circular-' + nm, text.encode(), False, False))
    # structural extremes
    for d in (10, 255, 256, 257, 2000) + ((10000,) if tier == 'thorough' else ()):
        inputs.append(('nest-paren-%d' % d, ('x := ' + '(' * d + '1' + ')' * d + ';\n').encode(), False, False))
        inputs.append(('nest-brace-%d' % d, ('f(): () == ' + '{' * d + ' ' + '}' * d + '\n').encode(), False, False))
        inputs.append(('nest-open-%d' % d, ('x := ' + '(' * d + '1;\n').encode(), False, True))
        inputs.append(('long-line-%d' % d, ('x := ' + '1 + ' * (d * 10) + '1;\n').encode(), False, False))
        inputs.append(('long-ident-%d' % d, ('a' * (d * 10) + ' := 1;\n').encode(), False, False))
    for e in (10, 255, 256, 257, 300, 512, 1000):
        inputs.append(('errors-%d' % e, ''.join('u%d := v%d;\n' % (i, i) for i in range(e)).encode(), False, 'emax'))
    for li, line in enumerate(UNTYPED_SEEDS[0].split('\n')):
        lines = UNTYPED_SEEDS[0].split('\n')
        inputs.append(('open-string@%d' % li, '\n'.join(lines[:li] + [line + ' "abc'] + lines[li + 1:]).encode(), False, True))
        inputs.append(('open-comment@%d' % li, '\n'.join(lines[:li] + [line + ' -- c'] + lines[li + 1:]).encode(), False, False))

    chunks = [inputs[i::NCPU * 4] for i in range(NCPU * 4)]

    def runone(label, data, typed, inv, d, timeout=20):
        write(d + '/t.as', data)
        cmd = base + (lib if typed else []) + (['-Mno-emax'] if inv == 'emax' else []) + (['-Mno-details'] if label.startswith('nd:') else []) + ['t.as']
        return cmd, run(cmd, cwd=d, timeout=timeout, merge=True, norand=False, mem_mb=4000)

    def work(ci):
        d = mkdir('%s/w%d' % (ck.work, ci))
        bad = []
        stats = {'n': 0, 'err': 0, 'ok0': 0}
        for label, data, typed, inv in chunks[ci]:
            if ck.expired():
                return bad, stats, False
            cmd, r = runone(label, data, typed, inv, d)
            stats['n'] += 1
            cls, det = faults.classify(r)
            t = r.text()
            printed = faults.error_printed(t)
            if cls == 'ok':
                if printed:
                    stats['err'] += 1
                else:
                    stats['ok0'] += 1
            problem = None
            if cls == 'signal' and r.sig == 9:
                # killed from outside (memory pressure on a loaded machine): run it again before believing it
                cmd, r = runone(label, data, typed, inv, d, timeout=60)
                cls, det = faults.classify(r)
                t = r.text()
                printed = faults.error_printed(t)
            if cls == 'hang':
                cmd, r2 = runone(label, data, typed, inv, d, timeout=60)     # re-run alone with a longer limit before calling it a hang
                if r2.timeout:
                    problem = ('hang', '')
            elif cls != 'ok':
                problem = (cls, det)
            elif (r.rc != 0) != printed:
                problem = ('dishonest-exit', 'exit %s but %s error line printed' % (r.rc, 'an' if printed else 'no'))
            elif unreadable_message(t, data):
                problem = ('unreadable-message', 'an error line carries no text, or bytes that are neither printable nor taken from the input')
            elif inv is True and not printed:
                problem = ('invalid-accepted', 'no diagnostic for an input that cannot be a program')
            elif inv == 'emax' and r.rc == 0:
                problem = ('dishonest-exit', 'exit 0 after errors')
            if problem:
                bad.append((label, data, typed, problem, t[-600:]))
        return bad, stats, True

    tot = {'n': 0, 'err': 0, 'ok0': 0}
    allbad = []
    for bad, stats, done in pmap(work, range(len(chunks)), n=NCPU):
        for k in tot:
            tot[k] += stats[k]
        allbad += bad
        if not done:
            ck.cut('input chunk not finished')
    ck.count(tot['n'])
    # one gdb run per faulting input (in parallel): the key is the fault site of that very input, never a neighbour's
    faulting = [(i, x) for i, x in enumerate(allbad) if x[3][0] in ('fault', 'signal', 'bug', 'assert', 'storage')]

    def site_of(j):
        i, (label, data, typed, (cls, det), tail) = j
        d = mkdir('%s/site%d' % (ck.work, i))
        write(d + '/t.as', data)
        return i, faults.fault_site(base + (lib if typed else []) + (['-Mno-details'] if label.startswith('nd:') else []) + ['t.as'], d)
    site_by = dict(pmap(site_of, faulting, n=NCPU))
    for bi, (label, data, typed, (cls, det), tail) in enumerate(allbad):
        if cls in ('fault', 'signal', 'bug', 'assert', 'storage'):
            site = site_by[bi]
            key = 'site=%s,kind=%s' % (site, cls)
            if site.startswith('unknown') and cls == 'bug':
                # reported through the message system, no stack to key on: key on the message text
                key = 'bug=%s' % re.sub(r'[^A-Za-z0-9]+', '-', det).strip('-')[:70]
        elif cls == 'hang':
            key = 'hang=%s' % label.split(':')[0]
        else:
            key = '%s=%s' % (cls, label if len(label) < 40 else label[:40])
        ck.report(key, '%s on input %s: %s\n%s' % (cls, label, det, tail), files={'t.as': data},
                  cmds=[' '.join(base + (lib if typed else []) + ['t.as'])])
    ck.nontrivial(('clean-accept', tot['ok0'] > 0))
    ck.nontrivial(('clean-reject', tot['err'] > 0))
    ck.cov.update({
        'distinct_nontrivial': tot['err'] + (1 if tot['ok0'] else 0),
        'rule': 'all strings of length <= %d over a 24-symbol token-class alphabet (%d); every single-token delete/duplicate/swap/insert-trouble-token edit of %d untyped and %d typed seeds; '
                'every keyword/operator of the token table alone and in pairs in file-start / after-statement / pile contexts with and without final newline (%d inputs); structural extremes; non-trivial = inputs rejected with a diagnostic (each is a distinct input)' % (n, nstr, len(UNTYPED_SEEDS), len(tseeds), nkw),
        'inputs': tot['n'], 'rejected_with_diagnostic': tot['err'], 'accepted_silently': tot['ok0'],
        'samples': ['x:=\\x80', '( { "s"', UNTYPED_SEEDS[2][:80], 'errors-256 (256 undefined names with -Mno-emax)'],
    })
    ck.assumptions += ['20 s per input (re-run alone at 60 s) is the termination bound', 'validity is only asserted for inputs with unbalanced brackets or an unterminated string']
    ck.finish()


if __name__ == '__main__':
    main(sys.argv[1] if len(sys.argv) > 1 else 'quick')
