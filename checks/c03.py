"""C03 — interpreter and native executable agree.
Every case x optimisation level is run by the interpreter (from source and from a saved .ao) and as a C executable;
tagged output and exit class must be the same, including for programs that end abnormally."""
import sys, os
from vlib.common import Check, pmap, VERIF
from vlib.runners import TC, mkdir, write
from vlib import families, progspace, progrun, diffeng

PID = 'C03'

ENDINGS = [
    ('normal', 'stdout << "E:1" << newline;', 0),
    ('uncaught', 'stdout << "E:1" << newline;\nthrow VExA;\nstdout << "E:2" << newline;', 1),
    ('uncaught-in-callee', 'thr(n: MachineInteger): MachineInteger == { n > 0 => throw VExB; n }\nstdout << "E:1" << newline;\nx: MachineInteger := thr(1);\nstdout << "E:" << x << newline;', 1),
    ('uncaught-after-finally', 'try { stdout << "E:1" << newline; throw VExA } catch E in { E has VExnB => stdout << "E:9" << newline; throw E } finally stdout << "E:40" << newline;\nstdout << "E:2" << newline;', 1),
    ('never', 'stdout << "E:1" << newline;\nf(n: MachineInteger): MachineInteger == { n > 0 => never; n }\nx: MachineInteger := f(1);\nstdout << "E:" << x << newline;', 1),
    ('error', 'stdout << "E:1" << newline;\nf(n: MachineInteger): MachineInteger == { n > 0 => error "boom"; n }\nx: MachineInteger := f(1);\nstdout << "E:" << x << newline;', 1),
    ('failed-assert', 'stdout << "E:1" << newline;\nf(n: MachineInteger): MachineInteger == { assert(n < 0); n }\nx: MachineInteger := f(1);\nstdout << "E:" << x << newline;', 1),
]
END_HEAD = progspace.PRELUDE + 'import from MachineInteger;\n'


def main(tier):
    ck = Check(PID, 'exploration', tier, deadline_s=900 if tier == 'quick' else 3000)
    b = ck.build('aldor', 'foam', 'libaldor')
    tc = TC(b)
    cases = families.all_cases(tier)
    exp = {k: progspace.expected(k, c)[0] for k, (f, c) in enumerate(cases)}
    levels = (0, 1, 2, 9) if tier == 'quick' else (0, 1, 2, 3, 5, 9)
    aolevels = (1,) if tier == 'quick' else (0, 2, 9)
    nonrec = [k for k, (f, c) in enumerate(cases) if f != 'F5R']
    out = {}
    for q in levels:
        idx = list(range(len(cases))) if q != 9 else nonrec
        sub = [cases[k] for k in idx]
        subexp = {i: [l.replace('K%d:' % idx[i], 'K%d:' % i) for l in exp[idx[i]]] for i in range(len(idx))}
        cfgs = [('interp', ('-Q%d' % q,)), ('c', ('-Q%d' % q,))]
        if q in aolevels:
            cfgs.append(('interp-ao', ('-Q%d' % q,)))
        res = diffeng.run_configs(ck, tc, sub, cfgs, expected=subexp, timeout=60 if tier == 'quick' else 150)
        for lab, by in res.items():
            d = out.setdefault(lab, {})
            for i, o in by.items():
                o.lines = [l.replace('K%d:' % i, 'K%d:' % idx[i], 1) for l in o.lines]
                d[idx[i]] = o
    nov = 0
    for q in levels:
        ci = out.get('c:-Q%d' % q, {})
        for route in ('interp', 'interp-ao'):
            ii = out.get('%s:-Q%d' % (route, q), {})
            for k, o in ii.items():
                c = ci.get(k)
                if c is None:
                    continue
                fam, case = cases[k]
                if o.status == 'timeout' or c.status == 'timeout':
                    nov += 1
                    continue
                same = (o.status == 'ok') == (c.status == 'ok') and [l for l in o.lines if not l.startswith('<<')] == [l for l in c.lines if not l.startswith('<<')]
                if same:
                    ck.nontrivial((q, route, fam, tuple(o.lines)))
                    continue
                cfgs = [(route, ('-Q%d' % q,)), ('c', ('-Q%d' % q,))]
                files, cmds = diffeng.replay_files(tc, fam, case, k, [c for c in cfgs if c[0] != 'interp-ao'])
                files['interp.txt'] = '\n'.join(o.lines) + '\n'
                files['c.txt'] = '\n'.join(c.lines) + '\n'
                ck.report('case=%s@%s-vs-c:-Q%d' % (diffeng.case_id(fam, case), route, q),
                          'family %s at -Q%d: %s %s %s | c %s %s' % (fam, q, route, o.status, o.lines[:10], c.status, c.lines[:10]), files, cmds)
    # program endings, one program per file, levels 0 1 2
    def ending(j):
        (name, body, cls), q = j
        res = {}
        for route in ('interp', 'c'):
            d = mkdir('%s/end-%s-%s-%d' % (ck.work, name, route, q))
            src = write(d + '/e.as', END_HEAD + body + '\n')
            if route == 'interp':
                r = tc.interp(src, ('-Q%d' % q,), d)
            else:
                exe, r = tc.cexe(src, ('-Q%d' % q,), d)
                if exe:
                    r = tc.runexe(exe)
            res[route] = r
        return j, res
    for j, res in pmap(ending, [(e, q) for e in ENDINGS for q in (0, 1, 2)]):
        (name, body, cls), q = j
        ck.count(2)
        if name == 'failed-assert' and q >= 2:
            continue    # -Qdel-assert (on from -Q2) removes assertion checks by documented design
        li = [l for l in res['interp'].text().split('\n') if l.startswith('E:')]
        lc = [l for l in res['c'].text().split('\n') if l.startswith('E:')]
        ci, cc = res['interp'].rc != 0, res['c'].rc != 0
        sig = res['interp'].sig or res['c'].sig
        if li == lc and ci == cc and (ci == (cls != 0)) and not sig:
            ck.nontrivial(('ending', name, q, tuple(li)))
        else:
            ck.report('ending=%s@-Q%d' % (name, q), 'ending %s at -Q%d: interp rc=%s lines=%s | c rc=%s lines=%s (expected exit class %s)' % (name, q, res['interp'].rc, li, res['c'].rc, lc, cls),
                      {'e.as': END_HEAD + body + '\n', 'interp.txt': res['interp'].text()[-1500:], 'c.txt': res['c'].text()[-1500:]})
    # ---- pinned corpus (thorough): every program of lib/axllib/test that builds on both routes and runs reproducibly
    ncorp = ncorp_nov = 0
    if tier == 'thorough' and not ck.expired():
        from vlib import corpus
        b2 = ck.build('aldor', 'foam', 'foamlib', 'axllib')
        tca = TC(b2, 'axllib')
        clevels = ['-Q0', '-Q1', '-Q2', '-Q3', '-Q5', '-Q9']
        cnames, got = corpus.matrix(ck, tca, ('c', 'interp'), clevels, ck.work)
        for n in cnames:
            if corpus.uses_foreign(n):
                continue            # the interpreter cannot call foreign functions: the routes are not comparable
            stable = True
            for route in ('c', 'interp'):
                b0 = got.get((n, route, '-Q0'), [])
                if len(b0) < 2 or b0[0].key() != b0[1].key() or b0[0].timeout or b0[0].stage != 'run':
                    stable = False
            if not stable:
                continue
            for q in clevels:
                c, i = got.get((n, 'c', q)), got.get((n, 'interp', q))
                if not c or not i:
                    continue
                c, i = c[0], i[0]
                ck.count()
                ncorp += 1
                if c.stage != 'run' or i.stage != 'run' or c.timeout or i.timeout:
                    ncorp_nov += 1
                    continue
                if (c.faulted() and i.faulted()) or ((c.rc == 0) == (i.rc == 0) and c.norm() == i.norm()):
                    ck.nontrivial(('corpus', n, q))
                else:
                    ck.report('corpus=%s@%s' % (n, q), 'corpus program %s at %s: C executable rc %s (%d bytes) vs interpreter rc %s (%d bytes)' % (n, q, c.rc, len(c.out), i.rc, len(i.out)),
                              files={'c.txt': c.out, 'interp.txt': i.out},
                              cmds=['# lib/axllib/test/%s/%s.as with the axllib library at %s: C executable vs `aldor -Ginterp %s.ao`' % (n, n, q, n)])
    ck.cov['corpus_program_levels_compared'] = ncorp
    ck.cov['corpus_no_verdict'] = ncorp_nov
    ck.cov.update({
        'rule': 'every case of the enumerated families x levels %s: interpreter from source, interpreter from saved .ao (levels %s), C executable; same tagged '
                'stdout and same exit class; plus %d program endings x levels 0,1,2; distinct = distinct (level, route, family, output) on which the routes agreed' % (list(levels), list(aolevels), len(ENDINGS)),
        'cases': len(cases), 'no_verdict_compile_timeouts': nov,
        'samples': [progspace.render_case(0, cases[len(cases) // 3][1])[:500], ENDINGS[3][1]],
    })
    ck.assumptions += ['stdout only is compared (stderr interleaving depends on buffering); exit status is compared as success/failure']
    ck.finish()


if __name__ == '__main__':
    main(sys.argv[1] if len(sys.argv) > 1 else 'quick')
