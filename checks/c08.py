"""C08 — compiler output is a function of its input only.
Units x outputs (.ao .fm .c .lsp .java .asy .ap) and the diagnostic stream x environment axes, each enumerated:
repeated runs; ASLR on / off; compiler's collector off, on, and forced at enumerated allocation counts (ALDOR_VERIF hook);
heap placement shifted by every page count 0..60 (ALDOR_VERIF_HEAPPAD, ASLR off); hostile environment variables;
another working directory; files compiled one at a time, batched, and batched in reverse order.
Oracle: byte-identical files and identical diagnostics."""
import os, re, sys, shutil, hashlib
from vlib.common import Check, run, pmap, VERIF, NCPU
from vlib import families, progrun
from vlib.runners import TC, mkdir, write

PID = 'C08'
OUTS = ['-Fao', '-Ffm', '-Fc', '-Flsp', '-Fjava', '-Fasy', '-Fap']
WARN = '''
-- a deliberate warning and a non-fatal oddity so that the diagnostic stream is not empty
vunused(x: MachineInteger): MachineInteger == { local y: MachineInteger := 1; x }
'''


def main(tier):
    ck = Check(PID, 'exploration', tier, deadline_s=900 if tier == 'quick' else 3000)
    b = ck.build('aldor', 'foam', 'libaldor')
    tc = TC(b)
    cs = families.all_cases('quick', ['F3', 'F6', 'F5', 'F9', 'F10', 'F4'])
    by = {}
    for f, c in cs:
        by.setdefault(f, []).append((f, c))
    U = [('a', by['F9'][:4] + by['F5'][:4] + by['F6'][200:204]), ('b', by['F10'][:12])]
    if tier == 'thorough':
        U += [('c', by['F3'][500:512]), ('d', by['F4'][100:112]), ('e', by['F6'][400:412])]
    texts = {n: progrun.unit_text((0, c)) + WARN for n, c in U}
    # documentation comments: before a declaration (+++), after it (++), both (they are merged), of varying lengths
    from vlib import progspace
    ops = []
    for i in range(16):
        pre = '\t+++ Operation number %d%s.\n' % (i, ' of the counter' * (i % 5)) if i % 4 != 3 else ''
        post = '\t\t++ Note %d%s.\n' % (i, ', see above' * (i % 3)) if i % 4 != 2 else ''
        ops.append('%s\tvop%d: %% -> %%;\n%s' % (pre, i, post))
    texts['doc'] = progspace.PRELUDE + '+++ A domain whose exports carry comments before and after.\nVDoc: with {\n\tvmk: MachineInteger -> %;\n\tvval: % -> MachineInteger;\n' + ''.join(ops) + \
        '} == add {\n\tRep == MachineInteger; import from Rep;\n\tvmk(n: MachineInteger): % == per n;\n\tvval(x: %): MachineInteger == rep x;\n' + \
        ''.join('\tvop%d(x: %%): %% == per(rep x + %d);\n' % (i, i) for i in range(16)) + '}\nimport from VDoc, MachineInteger;\npIMI("K0:", vval vop3 vop5 vmk 1);\n' + WARN

    def compile_in(d, names, opts=(), env=None, norand=True, cwd=None, q='-Q2'):
        for n in names:
            write('%s/%s.as' % (d, n), texts[n])
        srcs = [n + '.as' for n in names] if cwd is None else ['%s/%s.as' % (d, n) for n in names]
        cmd = tc.b.base() + tc.flags + [q] + OUTS + list(opts) + srcs
        r = run(cmd, cwd=cwd or d, env=env, timeout=600, merge=True, norand=norand)
        files = {}
        root = cwd or d
        for dp, dn, fn in os.walk(root):
            for f in fn:
                if f.endswith(('.ao', '.fm', '.c', '.lsp', '.java', '.asy', '.ap')):
                    files[os.path.relpath(os.path.join(dp, f), root)] = hashlib.sha1(open(os.path.join(dp, f), 'rb').read()).hexdigest()
        return r, files

    # reference: one unit per directory
    ref = {}
    alloc = {}
    for n in texts:
        d = mkdir('%s/ref-%s' % (ck.work, n))
        rep = d + '/rep'
        r, files = compile_in(d, [n], env={'ALDOR_VERIF_GC_REPORT': rep})
        if r.rc != 0 or len(files) < 7:
            ck.report('reference-compile-failed=%s' % n, r.text()[-600:], files={n + '.as': texts[n]})
            continue
        ref[n] = (files, r.text())
        alloc[n] = int(open(rep).read().split()[0])
    if ck.violations:
        ck.finish()
    variants = []      # (label, unit names, kwargs)
    for n in ref:
        variants.append(('repeat', [n], {}))
        variants.append(('aslr-on', [n], {'norand': False}))
        variants.append(('aslr-on-2', [n], {'norand': False}))
        variants.append(('no-gc', [n], {'opts': ['-Wno-gc']}))
        variants.append(('gc', [n], {'opts': ['-Wgc']}))
        variants.append(('hostile-env', [n], {'env': {'LANG': 'tr_TR.UTF-8', 'LC_ALL': 'tr_TR.UTF-8', 'TZ': 'Pacific/Kiritimati', 'PATH': '/nonexistent:' * 200 + '/usr/bin:/bin',
                                                     'HOME': '/', 'TMPDIR': '/nonexistent', 'COLUMNS': '7', 'LINES': '3', 'ALDORROOT': '/nonexistent', 'INCPATH': '/nonexistent', 'LIBPATH': '/nonexistent'}}))
        A = alloc[n]
        ks = [4096, 1024, 256] if tier == 'quick' else [4096, 2048, 1024, 512, 256, 128, 64, 32, 16]
        for k in ks:
            for j in range(min(k, 4) if tier == 'thorough' else 2):
                variants.append(('forced-gc-every:%d:%d' % (k, j), [n], {'opts': ['-Wgc'], 'env': {'ALDOR_VERIF_GC': 'every:%d:%d' % (k, j)}}))
        # a window of single collection points in the middle of the compilation proper (after the libraries are loaded)
        w = 120 if tier == 'quick' else 2000
        start = A - A // 6
        for i in range(start, start + w * 7, 7):
            variants.append(('forced-gc-at:%d' % i, [n], {'opts': ['-Wgc'], 'env': {'ALDOR_VERIF_GC': 'at:%d' % i}}))
        for m in (range(0, 61) if tier == 'thorough' else list(range(0, 14)) + [31, 61]):
            variants.append(('heappad-%d' % m, [n], {'env': {'ALDOR_VERIF_HEAPPAD': str(m)}}))
            if tier == 'thorough' or m in (1, 7, 13):
                variants.append(('heappad-%d-gc' % m, [n], {'opts': ['-Wgc'], 'env': {'ALDOR_VERIF_HEAPPAD': str(m), 'ALDOR_VERIF_GC': 'every:512:0'}}))
    names = sorted(ref)
    variants.append(('batched', names, {}))
    variants.append(('batched-reversed', list(reversed(names)), {}))
    variants.append(('batched-gc', names, {'opts': ['-Wgc'], 'env': {'ALDOR_VERIF_GC': 'every:1024:0'}}))

    def one(iv):
        i, (label, ns, kw) = iv
        if ck.expired():
            return iv, None
        d = mkdir('%s/v%d' % (ck.work, i))
        r, files = compile_in(d, ns, **kw)
        shutil.rmtree(d, ignore_errors=True)
        return iv, (r, files)

    def strip_diag(t, n=None):
        return t

    for iv, res in pmap(one, list(enumerate(variants))):
        i, (label, ns, kw) = iv
        if res is None:
            ck.cut('variant not run')
            continue
        r, files = res
        if r.timeout:
            # slow schedule on a loaded machine: no verdict for this variant (termination is C07's subject, not C08's)
            ck.cut('variant %s on %s exceeded the time limit' % (label, ns))
            continue
        ck.count()
        wantfiles = {}
        for n in ns:
            wantfiles.update(ref[n][0])
        problems = []
        if files != wantfiles:
            diff = sorted(k for k in set(files) | set(wantfiles) if files.get(k) != wantfiles.get(k))
            problems.append('files differ: %s' % diff[:6])
        if len(ns) == 1:
            if r.text() != ref[ns[0]][1]:
                problems.append('diagnostics differ')
        else:
            # batched: the diagnostics of each file must appear, in the order the files were given
            # (a batch announces each file with a "name.as:" line; those and blank lines are presentation)
            want = ''.join(ref[n][1] for n in ns)
            norm = lambda t: sorted(l for l in t.split('\n') if l.strip() and not re.match(r'^\w+\.as:$', l.strip()))
            if norm(r.text()) != norm(want):
                problems.append('diagnostics differ from the concatenation of the separate runs')
        if problems or r.rc != 0:
            kind = re.sub(r'[:\-]?\d+(:\d+)?$', '', label)
            exts = sorted(set(k.rsplit('.', 1)[-1] for k in set(files) | set(wantfiles) if files.get(k) != wantfiles.get(k)))
            if any('diagnostics' in p for p in problems):
                exts.append('diagnostics')
            ck.report('axis=%s,differs=%s' % (kind, '+'.join(exts) or 'exit-status'), 'variant %s on %s: %s (rc %s)\n%s' % (label, ns, '; '.join(problems), r.rc, r.text()[-400:]),
                      files=dict((n + '.as', texts[n]) for n in ns),
                      cmds=['# variant: %s  options/env: %s' % (label, kw)])
        else:
            ck.nontrivial((label, tuple(ns)))
    ck.cov.update({
        'rule': '%d units x 7 outputs + diagnostics x variants: repeat, ASLR on (x2) / off, -Wno-gc, -Wgc, forced collections every k-th allocation (k in a sweep, several offsets) and at '
                'single points of a window, heap shifted by m pages (m over 0..60 or a sub-range), hostile environment, batched and reversed invocation; '
                'distinct = variants whose outputs were byte-identical to the reference' % len(ref),
        'variants': len(variants), 'compiler_allocations': alloc,
        'samples': ['ALDOR_VERIF_GC=every:256:1 aldor -Wgc -Q2 -Fao -Ffm -Fc -Flsp -Fjava -Fasy -Fap a.as', 'ALDOR_VERIF_HEAPPAD=13 setarch -R aldor ...', 'aldor ... b.as a.as (batched, reversed)'],
    })
    ck.assumptions += ['ASLR layouts cannot be enumerated: two ASLR-on runs are a spot check, the deterministic heap-pad sweep is the decider']
    ck.finish()


if __name__ == '__main__':
    main(sys.argv[1] if len(sys.argv) > 1 else 'quick')
