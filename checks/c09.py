"""C09 — garbage collection never changes what a program computes.
Allocation-heavy units x {compiled executable, interpreter on a saved .ao} x collection schedules over the A allocation
points of the run (A measured by a counting run through the ALDOR_VERIF hook in stoAlloc): never, automatic, a forced
collection at every single point i (all i for compiled units; every point of the program's own window for the
interpreter), periodic schedules every k-th allocation with every offset, every allocation, and pairs of points.
Freed storage is poisoned.  Scale: one live structure of 10^3..10^6 cells in four shapes (library list, chain linked through
the last / the first field, array of cells) with collections while it is live.  Oracle: stdout and exit class equal the no-collection run; no fault."""
import os, re, sys, shutil
from vlib.common import Check, run, pmap, VERIF, NCPU
from vlib import families, progspace, progrun, faults
from vlib.runners import TC, mkdir, write

PID = 'C09'


SCALE_HEAD = '#include "aldor"\n#include "aldorio"\nimport from MachineInteger;\n'
# each program builds ONE structure of @N@ cells, allocates a little more while it is live, then walks it
SHAPES = {
    'list': '''import from List MachineInteger;
l: List MachineInteger := empty;
for i in 1..@N@ repeat l := cons(i, l);
t: List MachineInteger := empty;
for i in 1..1000 repeat t := cons(i, t);
s: MachineInteger := 0;
for x in l repeat s := s + x;
stdout << "K0:" << s << " " << #l << newline;
''',
    'chain-link-last': '''Cell ==> Record(val: MachineInteger, next: Pointer);
import from Cell;
c: Cell := [0, nil$Pointer];
for i in 1..@N@ repeat c := [i, c pretend Pointer];
t: Cell := [0, nil$Pointer];
for i in 1..1000 repeat t := [i, t pretend Pointer];
s: MachineInteger := 0; k: MachineInteger := 0;
p: Cell := c;
while not nil?(p.next) repeat { s := s + p.val; k := k + 1; p := (p.next) pretend Cell }
stdout << "K0:" << s << " " << k << newline;
''',
    'chain-link-first': '''Cell ==> Record(next: Pointer, val: MachineInteger);
import from Cell;
c: Cell := [nil$Pointer, 0];
for i in 1..@N@ repeat c := [c pretend Pointer, i];
t: Cell := [nil$Pointer, 0];
for i in 1..1000 repeat t := [t pretend Pointer, i];
s: MachineInteger := 0; k: MachineInteger := 0;
p: Cell := c;
while not nil?(p.next) repeat { s := s + p.val; k := k + 1; p := (p.next) pretend Cell }
stdout << "K0:" << s << " " << k << newline;
''',
    'array-of-cells': '''import from Array List MachineInteger, List MachineInteger;
a: Array List MachineInteger := new(@N@, empty);
for i in 1..@N@ repeat a(i - 1) := cons(i, empty);
t: List MachineInteger := empty;
for i in 1..1000 repeat t := cons(i, t);
s: MachineInteger := 0; k: MachineInteger := 0;
for i in 1..@N@ repeat { s := s + first(a(i - 1)); k := k + 1 }
stdout << "K0:" << s << " " << k << newline;
''',
}


def units_for(tier):
    cs = families.all_cases('quick', ['F4', 'F5', 'F5R', 'F6', 'F7', 'F9', 'F10'])
    by = {}
    for f, c in cs:
        by.setdefault(f, []).append((f, c))
    bi = [(f, c) for f, c in by['F6'] if c[0] == 'BI'][:4] + [(f, c) for f, c in by['F5R'] if c[0] == 'BI']
    U = []
    U.append(('lists-arrays-records', by['F6'][100:104] + by['F6'][300:304] + by['F6'][500:504]))
    U.append(('generators-closures', by['F4'][200:206] + by['F5'][:6]))
    U.append(('bignums-domains-exceptions', bi + by['F9'][:3] + by['F7'][10:14]))
    # the same without the recursive local functions of F5R, which -Q9 (unlimited inlining) never finishes compiling
    U.append(('bignums-domains-exceptions-norec', [(f, c) for f, c in by['F6'] if c[0] == 'BI'][:4] + by['F9'][:3] + by['F7'][10:14]))
    if tier == 'thorough':
        U.append(('optimiser-bait', by['F10'][:12]))
        U.append(('generators-2', by['F4'][600:612]))
        U.append(('data-2', by['F6'][10:22]))
    return [(n, (0, cs)) for n, cs in U]


def main(tier):
    ck = Check(PID, 'fault_enumeration', tier, deadline_s=900 if tier == 'quick' else 3000)
    b = ck.build('aldor', 'foam', 'libaldor')
    tc = TC(b)
    units = units_for(tier)
    prepared = []
    for name, u in units:
        if tier == 'quick' and name.endswith('-norec'):
            continue
        for q in ((1,) if tier == 'quick' else (1, 9)):
            if (name == 'bignums-domains-exceptions' and q == 9) or (name.endswith('-norec') and q != 9):
                continue
            d = mkdir('%s/%s-Q%d' % (ck.work, name, q))
            src = write(d + '/u.as', progrun.unit_text(u))
            exe, r = tc.cexe(src, ('-Q%d' % q,), d)
            r2 = tc.aldor(['-Q%d' % q, '-Fao', 'u.as'], d)
            if not exe or r2.rc != 0:
                ck.report('unit-build-failed=%s' % name, (r.text() + r2.text())[-600:], files={'u.as': progrun.unit_text(u)})
                continue
            prepared.append((name, q, d, exe))
    if ck.violations:
        ck.finish()

    def runit(route, d, exe, sched, report=None, timeout=120):
        env = {}
        if sched:
            env['ALDOR_VERIF_GC'] = sched
        if report:
            env['ALDOR_VERIF_GC_REPORT'] = report
        if route == 'c':
            return tc.runexe(exe, cwd=d, env=env, timeout=timeout)
        return tc.aldor(['-Wgc', '-laldor', '-Ginterp', 'u.ao'], d, env=env, timeout=timeout)

    def lines(r):
        return [l for l in r.text().split('\n') if re.match(r'K\d+:', l)]

    plan = []      # (prep index, route, schedule)
    refs = {}
    counts = {}
    for pi, (name, q, d, exe) in enumerate(prepared):
        for route in ('c', 'interp'):
            rep = '%s/rep-%s-%d' % (d, route, pi)
            r0 = runit(route, d, exe, None, rep)
            r1 = runit(route, d, exe, None, rep)
            if r0.rc != 0 or lines(r0) != lines(r1) or not lines(r0):
                ck.report('reference-run-unstable=%s,%s' % (name, route), r0.text()[-500:])
                continue
            total, mark, _ = [int(x) for x in open(rep).read().split('\n')[0].split()]
            refs[(pi, route)] = lines(r0)
            A = total if route == 'c' else total - mark
            counts[(pi, route)] = A
            pre = '' if route == 'c' else 'm'
            # single points
            # quick: the first unit gets every point; the others every point of their tail (library start-up, identical for all units, comes first)
            if route == 'c':
                pts = range(1, A + 1) if (tier == 'thorough' or pi == 0) else range(max(1, A - 3000), A + 1)
            else:
                pts = range(1 if tier == 'thorough' else max(1, A - 2500), A + 1)
            for i in pts:
                plan.append((pi, route, '%sat:%d' % (pre, i)))
            # periodic
            ks = (1, 2, 3, 5, 8, 13, 32) if tier == 'quick' else tuple(range(1, 33))
            if route == 'interp':
                ks = tuple(k for k in ks if k >= 3) + (64, 100)
            for k in ks:
                for j in range(k):
                    plan.append((pi, route, '%severy:%d:%d' % (pre, k, j)))
            # pairs inside the last points
            w = 40 if tier == 'quick' else 300
            step = 1 if tier == 'thorough' else 4
            for a in range(max(1, A - w), A, step):
                for c in range(a + 1, A + 1, step):
                    plan.append((pi, route, '%sat:%d,%d' % (pre, a, c)))
    if ck.violations:
        ck.finish()

    def one(j):
        pi, route, sched = j
        if ck.expired():
            return j, None
        name, q, d, exe = prepared[pi]
        return j, runit(route, d, exe, sched)

    bad = {}
    for j, r in pmap(one, plan):
        pi, route, sched = j
        if r is None:
            ck.cut('schedule not run')
            continue
        ck.count()
        name, q, d, exe = prepared[pi]
        cls, det = faults.classify(r)
        got = lines(r)
        if cls == 'ok' and r.rc == 0 and got == refs[(pi, route)]:
            ck.nontrivial((pi, route, sched))
            continue
        kind = sched.split(':')[0] + (':pair' if ',' in sched else '')
        key = 'unit=%s,Q%d,route=%s,schedule=%s' % (name, q, route, kind)
        bad.setdefault(key, []).append((sched, cls, det, r.rc, got[:5], r.text()[-300:]))
    # ---- scale: one long-lived structure of n cells, collections while it is live (the marker walks it in one go)
    sizes = (1000, 10000, 100000, 300000, 1000000)
    sjobs = []
    for shape in sorted(SHAPES):
        for n in sizes:
            for route in ('c', 'interp'):
                for sched in (None, 'every:%d:0' % (n // 3 + 1), 'every:%d:7' % (n // 2 + 1)):
                    if tier == 'quick' and route == 'interp' and (sched or '').endswith(':7'):
                        continue
                    sjobs.append((shape, n, route, sched))
    sdirs = {}
    for shape in sorted(SHAPES):
        for n in sizes:
            d = mkdir('%s/scale-%s-%d' % (ck.work, shape, n))
            src = write(d + '/u.as', SCALE_HEAD + SHAPES[shape].replace('@N@', str(n)))
            sdirs[(shape, n)] = d

    def sprep(k):
        d = sdirs[k]
        exe, r = tc.cexe(d + '/u.as', ('-Q1',), d)
        r2 = tc.aldor(['-Q1', '-Fao', 'u.as'], d)
        return k, (exe, (r.text() if not exe else '') + (r2.text() if r2.rc else ''))
    sexe = dict(pmap(sprep, sorted(sdirs)))
    for k, (exe, msg) in sorted(sexe.items()):
        if not exe or msg:
            ck.report('scale-unit-build-failed=%s' % k[0], msg[-600:], files={'u.as': SCALE_HEAD + SHAPES[k[0]].replace('@N@', str(k[1]))})

    def sone(j):
        shape, n, route, sched = j
        if ck.expired() or not sexe[(shape, n)][0]:
            return j, None
        d = sdirs[(shape, n)]
        env = {'ALDOR_VERIF_GC': ('m' if route == 'interp' else '') + sched} if sched else {}
        if route == 'c':
            return j, tc.runexe(sexe[(shape, n)][0], cwd=d, env=env, timeout=600)
        return j, tc.aldor(['-Wgc', '-laldor', '-Ginterp', 'u.ao'], d, env=env, timeout=600)
    for j, r in pmap(sone, sjobs):
        shape, n, route, sched = j
        if r is None:
            ck.cut('scale run not made')
            continue
        ck.count()
        want = ['K0:%d %d' % (n * (n + 1) // 2, n)]
        cls, det = faults.classify(r)
        if cls == 'ok' and r.rc == 0 and lines(r) == want:
            ck.nontrivial(('scale', shape, n, route, sched))
            continue
        ck.report('scale=%s,n=%d,route=%s' % (shape, n, route), '%s of %d cells, route %s, ALDOR_VERIF_GC=%s: %s %s rc=%s got %s want %s\n%s' % (shape, n, route, sched, cls, det, r.rc, lines(r), want, r.text()[-300:]),
                  files={'u.as': SCALE_HEAD + SHAPES[shape].replace('@N@', str(n))},
                  cmds=['# build u.as at -Q1 with the ALDOR_VERIF build of this tree, then:', 'ALDOR_VERIF_GC=%s ./u.exe' % sched])
    for key, lst in sorted(bad.items()):
        sched, cls, det, rc, got, tail = lst[0]
        m = re.match(r'unit=([^,]+),Q(\d),route=(\w+)', key)
        name, q, route = m.group(1), int(m.group(2)), m.group(3)
        u = dict(units)[name]
        ck.report(key, '%d schedules fail; first: ALDOR_VERIF_GC=%s -> %s %s rc=%s\n%s' % (len(lst), sched, cls, det, rc, tail),
                  files={'u.as': progrun.unit_text(u), 'schedules.txt': '\n'.join(x[0] for x in lst[:500]) + '\n'},
                  cmds=['# build u.as at -Q%d (route %s) with the ALDOR_VERIF build of this tree, then:' % (q, route), 'ALDOR_VERIF_GC=%s ./u.exe' % sched])
    ck.cov.update({
        'rule': 'units x routes {compiled, interpreter from .ao} x schedules: a forced collection at every single allocation point (compiled: all points; interpreter: every point of '
                'the window), every k-th allocation for every offset, and pairs of late points, with poisoning of freed storage; output must equal the run without forced collections; '
                'distinct = schedules that left the output unchanged',
        'allocation_points': {'%s-Q%d-%s' % (prepared[pi][0], prepared[pi][1], route): a for (pi, route), a in counts.items()},
        'schedules': len(plan),
        'samples': ['ALDOR_VERIF_GC=at:4711 ./u.exe', 'ALDOR_VERIF_GC=every:3:2 ./u.exe', 'ALDOR_VERIF_GC=mat:120,123 aldor -Wgc -laldor -Ginterp u.ao'],
    })
    ck.assumptions += ['a schedule is a list of absolute allocation counts, so a run is reproducible; the hook forces collections only when the collector is enabled']
    ck.finish()


if __name__ == '__main__':
    main(sys.argv[1] if len(sys.argv) > 1 else 'quick')
