"""C05 — saved intermediate forms and separate compilation lose nothing.
(1) units x levels: C, FOAM text and Lisp generated from the saved .ao equal those generated from the source after
    normalising the recorded file name and evaluating the portable re-expression of wide integers; a loaded .fm re-saves
    byte for byte; programs run from the saved forms print the same.
(2) a program of several domains is split in every dependency-closed way into a library unit and a client unit
    (#library), and the library half is also packed into archives in every member order; every split must print what the
    single-unit program prints, on the interpreter and as a C executable."""
import os, re, sys, itertools, shutil
from vlib.common import Check, run, pmap, VERIF, NCPU
from vlib import families, progspace, progrun
from vlib.runners import TC, mkdir, write

PID = 'C05'

CONSTS = progspace.PRELUDE + '''import from MachineInteger;
cc(): () == {
	import from MachineInteger;
	pIMI("K0:", 2147483647); pIMI("K0:", 2147483648); pIMI("K0:", 2147483649); pIMI("K0:", 4294967296); pIMI("K0:", 4294967295);
	pIMI("K0:", 4611686018427387904); pIMI("K0:", 4611686018427387903); pIMI("K0:", 9223372036854775807); pIMI("K0:", -9223372036854775807);
	pIMI("K0:", -2147483648); pIMI("K0:", -2147483649); pIMI("K0:", 1152921504606846976); pIMI("K0:", 281474976710656);
	pS("K0:", "%s");
	pS("K0:", "esc_"aped __ under");
}
cb(): () == {
	import from Integer;
	pIBI("K1:", %d);
	pIBI("K1:", -%d);
	pIBI("K1:", 18446744073709551616);
}
cc(); cb();
'''

FLOAT_HEAD = progspace.PRELUDE + '''import from MachineInteger;
fd(x: DoubleFloat): () == { import from DoubleFloat; stdout << "K2:" << (x ~= 0.0) << " " << (x < 0.0) << " " << x << " " << ((x * 1.0e300) * 1.0e20) << " " << ((x * 1.0e-300) * 1.0e-20) << newline }
fs(x: SingleFloat): () == { import from SingleFloat; stdout << "K3:" << (x ~= 0.0) << " " << (x < 0.0) << " " << x << " " << ((x * 1.0e30) * 1.0e10) << " " << ((x * 1.0e-30) * 1.0e-10) << newline }
'''


def float_units(tier):
    """float constants at every regime boundary of the two formats (smallest and largest denormal, powers of two in the
    denormal range, smallest and largest normal, mantissa all-ones / one-bit patterns); thorough: every power of two of both
    formats.  The library printer is imprecise for denormals, so every value is also printed scaled into the normal range."""
    import struct
    def f32(x):
        return struct.unpack('f', struct.pack('f', x))[0]
    dbl = [2.0 ** -1074, 2.0 ** -1073, 3 * 2.0 ** -1074, 2.0 ** -1050, 2.0 ** -1024, 2.0 ** -1023, 2.0 ** -1023 + 2.0 ** -1074, 2.0 ** -1022 - 2.0 ** -1074, 2.0 ** -1022,
           2.0 ** -1022 + 2.0 ** -1074, 2.0 ** -1021, 1e-320, 1e-310, 2.5e-300, 2.0 ** -500, 0.5, 1.0, 1 + 2.0 ** -52, 2 - 2.0 ** -52, 0.1, 3.0, 2.0 ** 52, 2.0 ** 53 + 2, 123456.789e3,
           2.0 ** 1022, 2.0 ** 1023, 1.7976931348623157e308]
    sgl = [2.0 ** -149, 2.0 ** -148, 3 * 2.0 ** -149, 2.0 ** -140, 2.0 ** -128, 2.0 ** -127, 2.0 ** -127 + 2.0 ** -149, 2.0 ** -126 - 2.0 ** -149, 2.0 ** -126, 2.0 ** -125,
           f32(1e-40), f32(1e-30), 0.5, 1.0, 1 + 2.0 ** -23, 2 - 2.0 ** -23, f32(0.1), 2.0 ** 23, 2.0 ** 24 + 2, 2.0 ** 126, 2.0 ** 127, f32(3.4028234e38)]
    def sl(v):
        t = '%.9g' % v
        return t if ('.' in t or 'e' in t) else t + '.0'

    def body(ds, ss):
        return FLOAT_HEAD + 'cf(): () == {\n\timport from DoubleFloat, SingleFloat;\n' + ''.join('\tfd(%r); fd(-%r);\n' % (v, v) for v in ds) + \
            ''.join('\tfs(%s); fs(-%s);\n' % (sl(v), sl(v)) for v in ss) + '}\ncf();\n'
    units = [('floats', body(dbl, sgl))]
    if tier == 'thorough':
        es = list(range(-1074, 1024))
        for i in range(0, len(es), 150):
            units.append(('floats-pow2d%d' % (i // 150), body([2.0 ** e for e in es[i:i + 150]], [])))
        units.append(('floats-pow2s', body([], [2.0 ** e for e in range(-149, 128)])))
    return units


def wide_units(tier):
    """index fields at the one-byte boundary of the compact byte encoding: a domain with n state variables (lexical slots
    around 256, reached from outside through inlined functions), a function with n locals, n top-level constants"""
    units = []
    for n in ((250, 300) if tier == 'quick' else (250, 255, 256, 257, 300, 600)):
        dom = 'VW%d: with { dep: MachineInteger -> (); bal: () -> MachineInteger; hi: () -> MachineInteger; rot: () -> MachineInteger; aud: () -> MachineInteger } == add {\n\timport from MachineInteger;\n' % n
        dom += ''.join('\tv%d: MachineInteger := %d;\n' % (i, i) for i in range(n))
        dom += '\tdep(k: MachineInteger): () == { free v0; v0 := v0 + k }\n\tbal(): MachineInteger == v0 + v1;\n'
        dom += '\thi(): MachineInteger == { free v%d; v%d := v%d + 1; v%d + v%d }\n' % (n - 1, n - 1, n - 1, n - 1, n - 2)
        # a reader of every variable keeps all of them (and their slot numbers) alive
        dom += '\taud(): MachineInteger == { s: MachineInteger := 0;\n' + ''.join('\t\ts := s + %d * v%d;\n' % (i % 7 + 1, i) for i in range(n)) + '\t\ts }\n'
        dom += '\trot(): MachineInteger == { free v0; free v%d; t: MachineInteger := v0; v0 := v%d; v%d := t; v0 }\n}\n' % (n - 1, n - 1, n - 1)
        use = 'cw%d(): () == {\n\timport from MachineInteger, VW%d;\n\tpIMI("K4:", bal()); pIMI("K4:", aud()); dep 1000; pIMI("K4:", bal()); pIMI("K4:", hi()); pIMI("K4:", rot()); pIMI("K4:", bal()); pIMI("K4:", hi()); pIMI("K4:", aud());\n}\ncw%d();\n' % (n, n, n)
        loc = 'cl%d(z: MachineInteger): MachineInteger == {\n\timport from MachineInteger;\n' % n + ''.join('\ta%d: MachineInteger := z + %d;\n' % (i, i) for i in range(n)) + \
              '\tf(): MachineInteger == a0 + a%d + a%d;\n\ta%d := a%d + 1;\n\tf() + %s\n}\npIMI("K5:", cl%d(1));\n' % (n - 1, n // 2, n - 1, n - 1, ' + '.join('a%d' % i for i in range(0, n, 37)), n)
        units.append(('wide%d' % n, progspace.PRELUDE + 'import from MachineInteger;\n' + dom + use + loc))
    return units


DOMS = {
    'D1': 'VD1: with { mk1: MachineInteger -> %; v1: % -> MachineInteger } == add { Rep == MachineInteger; import from Rep; mk1(n: MachineInteger): % == per(n + 1); v1(x: %): MachineInteger == rep x * 2 }\n',
    'D2': 'VD2: with { f2: MachineInteger -> MachineInteger; big2: () -> MachineInteger } == add { import from MachineInteger; f2(n: MachineInteger): MachineInteger == n * n + 4294967296; big2(): MachineInteger == 4611686018427387904 }\n',
    'D3': 'VD3: with { g3: MachineInteger -> MachineInteger } == add { import from MachineInteger, VD1; g3(n: MachineInteger): MachineInteger == v1(mk1 n) + 7 }\n',
    'D4': 'define VC4: Category == with { h4: % -> MachineInteger; default { h4(x: %): MachineInteger == { import from MachineInteger; 44 } } }\nVD4: VC4 with { mk4: () -> % } == add { Rep == MachineInteger; import from Rep; mk4(): % == per 0 }\n',
}
DEPS = {'D1': [], 'D2': [], 'D3': ['D1'], 'D4': []}
MAIN = '''import from MachineInteger, VD1, VD2, VD3, VD4;
stdout << "S:" << v1(mk1 5) << newline;
stdout << "S:" << f2 3 << newline;
stdout << "S:" << big2() << newline;
stdout << "S:" << g3 10 << newline;
stdout << "S:" << h4(mk4()) << newline;
'''
HEAD = '#include "aldor"\n#include "aldorio"\n'


def w64(v):
    v &= (1 << 64) - 1
    return v - (1 << 64) if v >> 63 else v


def norm(text, kind):
    t = re.sub(r'\s+', ' ', text)
    t = re.sub(r'from file "[^"]*"', 'from file "X"', t)
    t = re.sub(r' ?([()\[\]{},;&*=]) ?', r'\1', t)      # line wrapping puts blanks next to brackets and operators
    for _ in range(8):
        old = t
        if kind == 'c':
            t = re.sub(r'\((-?\d+)L ?<< ?(\d+)L ?\| ?(-?\d+)L\)', lambda m: '%dL' % w64((int(m.group(1)) << int(m.group(2))) | int(m.group(3))), t)
            t = re.sub(r'\(- ?(\d+)L\)', lambda m: '-%sL' % m.group(1), t)
            t = re.sub(r'--(\d+)L', lambda m: '%dL' % w64(int(m.group(1))), t)      # negation of the (wrapped) most negative value
        elif kind == 'fm':
            t = re.sub(r'\(BCall SIntOr\(BCall SIntShiftUp\(SInt (-?\d+)\)\(SInt (\d+)\)\)\(SInt (-?\d+)\)\)', lambda m: '(SInt %d)' % w64((int(m.group(1)) << int(m.group(2))) | int(m.group(3))), t)
            t = re.sub(r'\(BCall SIntNegate\(SInt (-?\d+)\)\)', lambda m: '(SInt %d)' % w64(-int(m.group(1))), t)
        else:
            t = re.sub(r'\(\|SIntOr\|\(\|SIntShiftUp\|\(the \|SInt\| (-?\d+)\)\(the \|SInt\| (\d+)\)\)\(the \|SInt\| (-?\d+)\)\)', lambda m: '(the |SInt| %d)' % w64((int(m.group(1)) << int(m.group(2))) | int(m.group(3))), t)
            t = re.sub(r'\(\|SIntNegate\|\(the \|SInt\| (-?\d+)\)\)', lambda m: '(the |SInt| %d)' % w64(-int(m.group(1))), t)
        if t == old:
            break
    return t


def main(tier):
    ck = Check(PID, 'exploration', tier, deadline_s=900 if tier == 'quick' else 3000)
    b = ck.build('aldor', 'foam', 'libaldor')
    tc = TC(b)
    # ---------------------------------------------------------------- (1) saved forms
    cs = families.all_cases('quick', ['F1', 'F3', 'F4', 'F5', 'F6', 'F7', 'F9', 'F10', 'F2', 'F8'])
    by = {}
    for f, c in cs:
        by.setdefault(f, []).append((f, c))
    units = [('consts', CONSTS % ('long string ' * 300, int('9' * 300), int('7' * 60)))]
    units += float_units(tier)
    units += wide_units(tier)
    per = 1 if tier == 'quick' else 4
    for f in sorted(by):
        lst = by[f]
        for i in range(per):
            chunk = lst[i * 12:(i + 1) * 12]
            if chunk:
                units.append(('%s-%d' % (f, i), progrun.unit_text((0, chunk))))
    levels = ('-Q0', '-Q2') if tier == 'quick' else ('-Q0', '-Q2', '-Q9')

    def saved(j):
        (name, text), q = j
        if ck.expired():
            return j, None
        d = mkdir('%s/s-%s%s' % (ck.work, name, q))
        out = {'problems': []}
        S, A, F = mkdir(d + '/src'), mkdir(d + '/ao'), mkdir(d + '/fm')
        write(S + '/u.as', text)
        r = tc.aldor([q, '-Fao', '-Ffm', '-Fc', '-Flsp', '-Fmain', 'u.as'], S, timeout=300)
        if r.timeout:
            # -Q9 (no inlining limit) does not finish on some units; compile time is not a property of the saved forms
            out['noverdict'] = 'compilation at %s exceeded the time limit' % q
            shutil.rmtree(d, ignore_errors=True)
            return j, out
        if r.rc != 0:
            out['problems'].append(('compile-from-source', r.text()[-300:]))
            return j, out
        shutil.copy(S + '/u.ao', A)
        shutil.copy(S + '/u.fm', F)
        r = tc.aldor(['-Ffm', '-Fc', '-Flsp', 'u.ao'], A, timeout=300)
        if r.rc != 0:
            out['problems'].append(('generate-from-ao', r.text()[-300:]))
        else:
            for ext, kind in (('c', 'c'), ('fm', 'fm'), ('lsp', 'lsp')):
                a, s_ = open('%s/u.%s' % (A, ext)).read(), open('%s/u.%s' % (S, ext)).read()
                if norm(a, kind) != norm(s_, kind):
                    out['problems'].append(('ao-vs-source-%s' % ext, 'normalised text differs'))
        r = tc.aldor(['-Ffm=v.fm', 'u.fm'], F, timeout=300)
        if r.rc != 0 or not os.path.exists(F + '/v.fm'):
            out['problems'].append(('reload-fm', r.text()[-300:]))
        elif open(F + '/v.fm', 'rb').read() != open(F + '/u.fm', 'rb').read():
            out['problems'].append(('fm-resave-not-identical', 're-saved .fm differs from the loaded one'))
        # behaviour: source (interp) vs saved .ao (interp) vs C generated from the saved .ao
        r0 = tc.interp(S + '/u.as', (q,), S, timeout=300)
        r1 = tc.aldor(['-laldor', '-Ginterp', 'u.ao'], A, timeout=300)
        want = [l for l in r0.text().split('\n') if re.match(r'K\d+:', l)]
        got = [l for l in r1.text().split('\n') if re.match(r'K\d+:', l)]
        if want != got or r0.rc != r1.rc or not want:
            out['problems'].append(('run-from-ao', 'source %s... vs saved %s...' % (want[:3], got[:3])))
        # the interpreter itself executes the serialised form, so the executable built from the directly generated C is
        # the reference that never went through a saved form
        g0 = tc.cc(S, ['u.c', 'u-aldormain.c'], 'u0.exe')
        direct = None
        if g0.rc == 0:
            x0 = tc.runexe(S + '/u0.exe')
            direct = [l for l in x0.text().split('\n') if re.match(r'K\d+:', l)]
        else:
            out['problems'].append(('direct-c-does-not-build', g0.text()[-300:]))
        shutil.copy(S + '/u-aldormain.c', A)
        g = tc.cc(A, ['u.c', 'u-aldormain.c'], 'u.exe')
        if g.rc != 0:
            out['problems'].append(('c-from-ao-does-not-build', g.text()[-300:]))
        else:
            x = tc.runexe(A + '/u.exe')
            got = [l for l in x.text().split('\n') if re.match(r'K\d+:', l)]
            if direct is not None and direct != got:
                out['problems'].append(('run-c-from-ao', 'direct C %s... vs C-from-ao %s...' % ([l for l in direct if l not in got][:3], [l for l in got if l not in direct][:3])))
        out['lines'] = want
        shutil.rmtree(d, ignore_errors=True)
        return j, out

    for j, out in pmap(saved, [(u, q) for u in units for q in levels]):
        (name, text), q = j
        if out is None:
            ck.cut('unit not processed')
            continue
        if out.get('noverdict'):
            ck.cut('%s: %s' % (name, out['noverdict']))
            continue
        ck.count(6)
        if not out['problems']:
            ck.nontrivial((name, q, tuple(out.get('lines', []))[:40]))
        for kind, det in out['problems']:
            ck.report('saved=%s,unit=%s,%s' % (kind, name.split('-')[0], q), '%s at %s: %s: %s' % (name, q, kind, det), files={'u.as': text},
                      cmds=['# compile u.as with %s -Fao -Ffm -Fc -Flsp; regenerate from u.ao / u.fm in another directory; compare' % q])
    # ---------------------------------------------------------------- (2) splits
    names = sorted(DOMS)
    whole_text = HEAD + ''.join(DOMS[n] for n in names) + MAIN
    dw = mkdir(ck.work + '/whole')
    write(dw + '/w.as', whole_text)
    rw = tc.interp(dw + '/w.as', ('-Q1',), dw)
    want = [l for l in rw.text().split('\n') if l.startswith('S:')]
    if rw.rc != 0 or len(want) != 5:
        ck.report('whole-program-failed', rw.text()[-500:], files={'w.as': whole_text})
        ck.finish()
    splits = []
    for r in range(1, len(names) + 1):
        for lib in itertools.combinations(names, r):
            if all(all(dp in lib for dp in DEPS[n]) for n in lib):
                splits.append(lib)
    sjobs = []
    for lib in splits:
        for q in (('-Q1',) if tier == 'quick' else ('-Q0', '-Q2', '-Q9')):
            for route in ('interp', 'c'):
                sjobs.append((lib, q, route, 'ao', None))
        # archive: library domains as separate members, every member order
        if len(lib) <= 3:
            for order in itertools.permutations(lib):
                sjobs.append((lib, '-Q1', 'interp', 'al', order))

    def split(j):
        lib, q, route, pack, order = j
        if ck.expired():
            return j, None
        d = mkdir('%s/sp-%s-%s-%s-%s-%s' % (ck.work, ''.join(lib), q, route, pack, ''.join(order or ())))
        client_doms = [n for n in names if n not in lib]
        if pack == 'ao':
            write(d + '/vlib.as', HEAD + ''.join(DOMS[n] for n in lib))
            r = tc.aldor([q, '-Fao'] + (['-Fc'] if route == 'c' else []) + ['vlib.as'], d, timeout=300)
            libline = '#library VL "vlib.ao"\nimport from VL;\n'
            cfiles = ['vlib.c']
        else:
            cfiles = []
            for n in order:
                # members in dependency order of compilation, archived in the enumerated order
                pass
            done = []
            r = None
            for n in [x for x in names if x in lib]:
                pre = ''.join('#library L%s "m%s.ao"\nimport from L%s;\n' % (dp, dp.lower(), dp) for dp in DEPS[n])
                write(d + '/m%s.as' % n.lower(), HEAD + pre + DOMS[n])
                r = tc.aldor([q, '-Fao', 'm%s.as' % n.lower()], d, timeout=300)
                if r.rc != 0:
                    break
            run(['ar', 'cr', 'libvl.al'] + ['m%s.ao' % n.lower() for n in order], cwd=d, norand=False)
            libline = '#library VL "libvl.al"\nimport from VL;\n'
        if r.rc != 0:
            return j, ('library-half-rejected', r.text()[-400:], [])
        write(d + '/client.as', HEAD + libline + ''.join(DOMS[n] for n in client_doms) + MAIN)
        if route == 'interp':
            x = tc.aldor([q, '-Y.', '-Ginterp', 'client.as'], d, timeout=300)
        else:
            r = tc.aldor([q, '-Y.', '-Fc', '-Fmain', 'client.as'], d, timeout=300)
            if r.rc != 0:
                return j, ('client-rejected', r.text()[-400:], [])
            g = tc.cc(d, ['client.c', 'client-aldormain.c'] + cfiles, 'client.exe')
            if g.rc != 0:
                return j, ('split-does-not-link', g.text()[-400:], [])
            x = tc.runexe(d + '/client.exe')
        got = [l for l in x.text().split('\n') if l.startswith('S:')]
        shutil.rmtree(d, ignore_errors=True)
        return j, ('ok' if (got == want and x.rc == 0) else 'output-differs', x.text()[-400:], got)

    for j, res in pmap(split, sjobs):
        lib, q, route, pack, order = j
        if res is None:
            ck.cut('split not run')
            continue
        ck.count()
        st, tail, got = res
        if st == 'ok':
            ck.nontrivial((lib, q, route, pack, order))
        else:
            ck.report('split=%s,pack=%s,route=%s,%s' % ('+'.join(lib), pack, route, st), 'library {%s} (%s%s) client {rest} at %s on %s: %s\n got %s\n want %s\n%s' % (
                ','.join(lib), pack, ' order ' + '>'.join(order) if order else '', q, route, st, got, want, tail), files={'whole.as': whole_text})
    ck.cov.update({
        'rule': '(1) %d units (constants unit + one or more 12-case units per family) x levels %s: C/FOAM/Lisp from the saved .ao vs from source (normalised), .fm load-and-resave identity, '
                'run from .ao and C-from-.ao vs source; (2) all %d dependency-closed splits of a 4-domain program into library and client on both routes, plus every archive member order; '
                'distinct = unit/level/split combinations that agreed' % (len(units), list(levels), len(splits)),
        'samples': ['consts unit: SInt 2^31+-1, 2^32, 2^62, max, min+1, a 300-digit Integer, a 3.6 KB string', 'library {D1,D3} as archive members in order D3>D1, client {D2,D4}+main'],
    })
    ck.assumptions += ['text comparison is made after collapsing white space, replacing the recorded input file name and evaluating re-expressed wide integers (shift/or chains)']
    ck.finish()


if __name__ == '__main__':
    main(sys.argv[1] if len(sys.argv) > 1 else 'quick')
