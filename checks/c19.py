"""C19 — floating-point constants keep their exact value.
(1) module level: bit patterns through xsf/xdf encode-decode, dissemble-assemble, the runtime wrappers and the
    buffer codec (exhaustive over all 2^32 singles in the thorough tier);
(2) program level: decimal literals converted at compile time (folded, -Q2), at run time (-Q0, interpreter and C),
    and after a trip through a saved .ao must give the same bits."""
import os, re, sys, struct
from vlib.common import Check, run, pmap, NCPU, VERIF
from vlib import cmodel
from vlib.runners import TC, mkdir, write

PID = 'C19'


def literals(tier):
    L = []
    # doubles: boundary patterns, rendered with the shortest round-trip text
    exps = list(range(0, 2047, 64 if tier == 'quick' else 8)) + [1, 2, 1022, 1023, 1024, 2045, 2046]
    fracs = [0, 1, 2, (1 << 52) - 1, (1 << 52) - 2, 1 << 51, (1 << 51) - 1, 0xAAAAAAAAAAAAA, 0x5555555555555, 1 << 26, (1 << 26) + 1]
    for e in sorted(set(exps)):
        for f in fracs:
            for s in (0, 1):
                if s and f not in (0, 1, (1 << 52) - 1):
                    continue
                bits = (s << 63) | (e << 52) | f
                x = struct.unpack('<d', struct.pack('<Q', bits))[0]
                L.append(('D', repr(x)))
    # classic hard-to-round strings
    for h in ['2.2250738585072011e-308', '2.2250738585072014e-308', '1.7976931348623157e308', '4.9406564584124654e-324',
              '5e-324', '0.1', '0.2', '0.3', '1e23', '8.41e21', '9007199254740993', '9007199254740992.5', '1.00000000000000011102230246251565404236316680908203125',
              '1.00000000000000011102230246251565404236316680908203124', '0.500000000000000166533453693773481063544750213623046875',
              '3.14159265358979323846264338327950288', '123456789012345678901234567890', '1e-5', '1.5e10', '6.02214076e23', '0.000001', '1e0', '100',
              '17.0', '.5', '5.', '1e+3', '1E3', '0.1e1', '00012.50', '0.0', '1e999', '-1e999', '1e-999', '-1e-999']:
        L.append(('D', h))
    # singles: "%.9g" of boundary patterns
    for e in range(0, 255, 16 if tier == 'quick' else 2):
        for f in (0, 1, (1 << 23) - 1, 1 << 22, 0x2AAAAA, 0x555555):
            bits = (e << 23) | f
            x = struct.unpack('<f', struct.pack('<I', bits))[0]
            L.append(('S', '%.9g' % x))
    for h in ['0.1', '16777217', '16777216.5', '3.4028235e38', '1.4e-45', '1.17549435e-38', '0.3', '1e10', '8.5899346e9', '7.038531e-26',
              '-0.0', '0.0', '-1.5', '-3.4028235e38', '-1.4e-45', '1e39', '-1e39', '1e-50']:
        L.append(('S', h))
    seen = set()
    out = []
    for k in L:
        if k not in seen and 'inf' not in k[1] and 'nan' not in k[1]:
            seen.add(k)
            out.append(k)
    return out


HEAD = '''#include "aldor"
#include "aldorio"
import from Machine;
import {
	ArrToDFlo: Arr -> DFlo;
	ArrToSFlo: Arr -> SFlo;
	DFloDissemble: DFlo -> (Bool, SInt, Word, Word);
	SFloDissemble: SFlo -> (Bool, SInt, Word);
} from Builtin;
import from MachineInteger;
pd(t: MachineInteger, x: DFlo): () == { (s, e, w1, w2) := DFloDissemble x; stdout << "L" << t << "=" << (s pretend Boolean) << "," << (e pretend MachineInteger) << "," << (w1 pretend MachineInteger) << newline; }
ps(t: MachineInteger, x: SFlo): () == { (s, e, w1) := SFloDissemble x; stdout << "L" << t << "=" << (s pretend Boolean) << "," << (e pretend MachineInteger) << "," << (w1 pretend MachineInteger) << newline; }
'''


def unit_text(lits, base):
    lines = [HEAD]
    for i, (k, s) in enumerate(lits):
        if k == 'D':
            lines.append('pd(%d, ArrToDFlo("%s" pretend Arr));' % (base + i, s))
        else:
            lines.append('ps(%d, ArrToSFlo("%s" pretend Arr));' % (base + i, s))
    return '\n'.join(lines) + '\n'


def parse(out):
    d = {}
    for k, v in re.findall(r'^L(\d+)=(.*)$', out, re.M):
        p = v.split(',')
        if len(p) == 3 and re.match(r'-?\d+$', p[2]):
            # SFloDissemble writes only 32 bits of its Word result on a 64-bit host (the libraries mask it too,
            # sal_sfloat.as "64-BIT dissemble-bug"); DFlo fractions use 53 bits: keep 56
            p[2] = str(int(p[2]) & 0xFFFFFFFFFFFFFF)
        d[k] = ','.join(p)
    return d


def main(tier):
    ck = Check(PID, 'exploration', tier)
    b = ck.build('aldor', 'foam', 'libaldor')
    try:
        h = cmodel.harness(b, 'c19')
    except Exception as e:
        ck.build_failed = str(e)
        print('BUILD FAILED (no property verdict):', e)
        ck.finish()

    # ---- (1) module level -------------------------------------------------------------------
    jobs = [('sfq', s, NCPU) for s in range(NCPU)] + [('df', s, NCPU) for s in range(NCPU)]
    if tier == 'thorough':
        step = 1 << 26
        jobs += [('sf', lo, lo + step, 1) for lo in range(0, 1 << 32, step)]
    else:
        step = 1 << 28
        jobs += [('sf', lo, lo + step, 251) for lo in range(0, 1 << 32, step)]   # every 251st pattern (251 is odd: all low-bit combinations occur)

    def one(j):
        if ck.expired():
            return j, None
        return j, run([h] + [str(x) for x in j], timeout=3000, norand=False)
    patterns = 0
    full32 = tier == 'thorough'
    for j, r in pmap(one, jobs):
        if r is None:
            ck.cut('module job %s not run' % (j,))
            if j[0] == 'sf':
                full32 = False
            continue
        text = r.text()
        m = re.search(r'STAT mode=\S+ patterns=(\d+) checks=(\d+) violations=(\d+)', text)
        if m:
            patterns += int(m.group(1))
            ck.count(int(m.group(2)))
        bads = re.findall(r'^BAD route=(\S+) count=(\d+)', text, re.M)
        if bads or not m or r.rc != 0:
            routes = '+'.join(x[0] for x in bads) or 'harness-exit-%s' % r.rc
            ck.report('route=%s' % routes, 'mode %s: %s' % (j, text[-1500:]),
                      files={'output.txt': text[-4000:]},
                      cmds=['%s/bin/vcheck harness c19 %s' % (VERIF, ' '.join(str(x) for x in j))])
    # ---- (2) literals ----------------------------------------------------------------------------
    tc = TC(b, 'aldor')
    lits = literals(tier)
    PACK = 100
    units = [lits[i:i + PACK] for i in range(0, len(lits), PACK)]

    def lit_unit(ui):
        d = mkdir('%s/lit%d' % (ck.work, ui))
        src = write(d + '/u%d.as' % ui, unit_text(units[ui], ui * PACK))
        res = {}
        r = tc.interp(src, ('-Q0', '-Qdeadvar'), d)
        res['interp-unfolded'] = r
        r = tc.interp(src, ('-Q2',), d)
        res['interp-folded'] = r
        # through a saved object
        d2 = mkdir(d + '/ao')
        write(d2 + '/u%d.as' % ui, unit_text(units[ui], ui * PACK))
        r = tc.aldor(['-Q2', '-Fao', 'u%d.as' % ui], d2)
        if r.rc == 0:
            r = tc.aldor(['-laldor', '-Ginterp', 'u%d.ao' % ui], d2)
        res['folded-via-ao'] = r
        d3 = mkdir(d + '/c')
        src3 = write(d3 + '/u%d.as' % ui, unit_text(units[ui], ui * PACK))
        exe, r = tc.cexe(src3, ('-Q0',), d3)
        if exe:
            r = tc.runexe(exe)
        res['c-unfolded'] = r
        d4 = mkdir(d + '/c2')
        src4 = write(d4 + '/u%d.as' % ui, unit_text(units[ui], ui * PACK))
        exe, r = tc.cexe(src4, ('-Q2',), d4)
        if exe:
            r = tc.runexe(exe)
        res['c-folded'] = r
        # was it really folded at -Q2?  (the .fm must contain DFlo/SFlo constants and no ArrToDFlo call)
        r = tc.aldor(['-Q2', '-Ffm=fold.fm', 'u%d.as' % ui], d)
        folded = None
        try:
            fm = open(d + '/fold.fm').read()
            folded = ('ArrToDFlo' not in fm.replace('(GDecl', '').split('(DDef')[-1]) if fm else None
        except OSError:
            pass
        return ui, res, folded

    nlit = 0
    for ui, res, folded in pmap(lit_unit, range(len(units))):
        base = ui * PACK
        outs = {}
        for k, r in res.items():
            if r.timeout or r.rc != 0:
                ck.report('literal-unit-route-failed=%s' % k, 'unit %d route %s rc=%s: %s' % (ui, k, r.rc, r.text()[-600:]),
                          files={'u.as': unit_text(units[ui], base), 'output.txt': r.text()[-3000:]})
                continue
            outs[k] = parse(r.text())
        for i, (kind, s) in enumerate(units[ui]):
            vals = {k: o.get(str(base + i)) for k, o in outs.items()}
            if kind == 'S':
                vals = {k: (v if v is None else ','.join(v.split(',')[:2] + [str(int(v.split(',')[2]) & 0xFFFFFFFF)])) for k, v in vals.items()}
            ck.count(len(vals))
            nlit += 1
            if len(set(vals.values())) > 1 or None in vals.values():
                ck.report('literal=%s:%s' % (kind, s), 'routes disagree on %s literal "%s": %s' % (kind, s, vals),
                          files={'u.as': unit_text([(kind, s)], 0)})
            else:
                ck.nontrivial(('lit', list(vals.values())[0]))
    ck.nontrivial(('module', patterns))
    ck.cov['distinct_nontrivial'] = len(ck.distinct)
    ck.cov.update({
        'rule': 'module: single-precision patterns (all sign x exponent x 4142 boundary fractions; %s) and doubles (all sign x exponent x 344 '
                'boundary fractions) through four encode/decode routes, NaN must stay NaN, everything else bit-identical; '
                'program: %d decimal literals (shortest round-trip text of boundary patterns + hard-to-round strings) converted at '
                'compile time (-Q2 folded), at run time (-Q0, interpreter and C) and after a trip through .ao; distinct = distinct literal bit results'
                % ('all 2^32 patterns' if full32 else 'every 251st of the 2^32 patterns', nlit),
        'patterns': patterns, 'literals': nlit, 'all_2^32_singles': full32,
        'samples': ['single 0x7f7fffff (max) -> XSFloat -> back', 'double 0x0000000000000001 (min subnormal) dissemble/assemble',
                    {'literal': 'ArrToDFlo("2.2250738585072011e-308")', 'routes': ['interp -Q0', 'interp -Q2 (folded)', '.ao', 'C -Q0', 'C -Q2']}],
    })
    ck.assumptions += ['the host is IEEE-754 little endian', 'the fourth result of DFloDissemble is not written on a 64-bit word and is not compared']
    ck.finish()


if __name__ == '__main__':
    main(sys.argv[1] if len(sys.argv) > 1 else 'quick')
