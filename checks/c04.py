"""C04 — every builtin means the same wherever it is evaluated.
Every builtin imported from `Builtin` by the library (list read from sal_lang.as) x the full product of per-type boundary
sets x argument patterns (constant / opaque run-time value) is evaluated by the folder (-Q2, constant operands),
the algebraic simplifier (-Q2, mixed operands), the interpreter (-Q0) and the C runtime (-Q0); all must agree, and for
boolean, character and integer operations they must equal the mathematical definition computed in Python."""
import os, re, sys, itertools, math
from vlib.common import Check, pmap, VERIF
from vlib import build as _b
from vlib.runners import TC, mkdir, write

PID = 'C04'
W = 64
MIN, MAX = -(1 << 63), (1 << 63) - 1


def wrap(x):
    x &= (1 << W) - 1
    return x - (1 << W) if x >> (W - 1) else x


def parse_ops():
    src = open(_b.R + '/lib/aldor/src/lang/sal_lang.as').read()
    blk = src[src.index('import {'):src.index('} from Builtin')]
    blk = re.sub(r'--.*', '', blk)
    ops = re.findall(r'([A-Za-z0-9]+)\s*:\s*(\([^)]*\)|[A-Za-z]+)\s*->\s*(\([^)]*\)|[A-Za-z]+)\s*;', blk)

    def args(a):
        a = a.strip()
        if a == '()':
            return []
        if a.startswith('('):
            return [x.strip() for x in a[1:-1].split(',')]
        return [a]
    return [(n, args(a), args(r)) for n, a, r in ops]


OKT = {'Bool', 'Char', 'SInt', 'BInt', 'SFlo', 'DFlo', 'Word'}
SKIP = {'Halt', 'BIntDispose', 'ArrDispose', 'PlatformRTE', 'PlatformOS',
        # rounding-mode variants: the mode argument selects a hardware mode the C runtime may not honour; compared nowhere
        'SFloRPlus', 'SFloRMinus', 'SFloRTimes', 'SFloRDivide', 'DFloRPlus', 'DFloRMinus', 'DFloRTimes', 'DFloRDivide',
        'SFloRTimesPlus', 'DFloRTimesPlus', 'SFloRound', 'DFloRound',
        # Assemble needs a consistent (sign, exponent, fraction) triple: covered by C19
        'SFloAssemble', 'DFloAssemble'}


def sint_set(tier):
    s = {0, 1, -1, 2, -2, 3, -3, MIN, MAX, MIN + 1, MAX - 1}
    ks = (7, 8, 15, 16, 31, 32, 62, 63) if tier == 'thorough' else (7, 31, 32, 62)
    for k in ks:
        for d in (-1, 0, 1):
            v = (1 << k) + d
            if MIN <= v <= MAX:
                s.add(v)
            if MIN <= -v <= MAX:
                s.add(-v)
    return sorted(s)


def domains(tier):
    S = sint_set(tier)
    small = [0, 1, -1, 2, -3, 7, 63, 64, MIN, MAX, (1 << 31), -(1 << 32) - 1]
    B = [0, 1, -1, 2, -2, (1 << 31) - 1, (1 << 31) + 1, -(1 << 31) - 1, (1 << 32) - 1, (1 << 32) + 1, -(1 << 32) + 1,
         (1 << 63) - 1, (1 << 63) + 1, -(1 << 63), -(1 << 63) - 1, 1 << 64, -(1 << 64), 10 ** 20, -10 ** 20]
    F = ['0.0', '-0.0', '1.0', '-1.0', '0.5', '-2.5', '1.0e10', '1.0e-10', '3.25', '1.0e30', '123456.789', '4.9e-324', '1.7976931348623157e308', '0.1']
    CH = list(range(128))
    CH2 = [0, 9, 10, 32, 47, 48, 57, 58, 64, 65, 90, 91, 96, 97, 122, 123, 127]
    return {'S': S, 'Ssmall': small, 'B': B, 'Bsmall': [0, 1, -1, 2, -3, 1 << 31, (1 << 64) + 1, -10 ** 20],
            'F': F, 'FS': [x for x in F if x not in ('4.9e-324', '1.7976931348623157e308')] + ['3.4028235e38', '1.4e-45'], 'Fsmall': F[:6], 'C': CH, 'C2': CH2, 'shift': [0, 1, 31, 32, 62, 63]}


def dom(D, t, arity, pos, name):
    if t == 'Bool':
        return [False, True]
    if t == 'Char':
        return D['C'] if arity == 1 else D['C2']
    if t == 'BInt':
        return D['B'] if arity <= 2 else D['Bsmall']
    if t == 'SFlo':
        # only values representable (finite, non-zero-flushing) in single precision
        return D['FS'] if arity <= 2 else D['Fsmall']
    if t == 'DFlo':
        return D['F'] if arity <= 2 else D['Fsmall']
    if t == 'Word':
        return [x & ((1 << 64) - 1) for x in (0, 1, 2, (1 << 31), (1 << 32) - 1, (1 << 32), (1 << 63), (1 << 64) - 1, (1 << 64) - 2, 0xDEADBEEFCAFEBABE)]
    if name in ('SIntShiftUp', 'SIntShiftDn', 'SIntBit', 'BIntShiftUp', 'BIntShiftDn', 'BIntBit') and pos == 1:
        return D['shift'] + ([64, 130] if name.startswith('BInt') else [])
    if name in ('BIntSIPower',) and pos == 1:
        return [0, 1, 2, 3, 5, 16, 31]
    return D['S'] if arity <= 2 else D['Ssmall']


def in_domain(n, v):
    """argument tuple in the operation's domain (no C undefined behaviour, no exception)"""
    if n in ('SIntQuo', 'SIntRem', 'SIntMod', 'SIntDivide'):
        return v[1] != 0 and not (v[0] == MIN and v[1] == -1) and not (n == 'SIntMod' and v[1] < 0)
    if n in ('BIntQuo', 'BIntRem', 'BIntMod', 'BIntDivide'):
        return v[1] != 0
    if n in ('SIntPlus',):
        return MIN <= v[0] + v[1] <= MAX
    if n == 'SIntMinus':
        return MIN <= v[0] - v[1] <= MAX
    if n == 'SIntTimes':
        return MIN <= v[0] * v[1] <= MAX
    if n == 'SIntTimesPlus':
        return MIN <= v[0] * v[1] <= MAX and MIN <= v[0] * v[1] + v[2] <= MAX
    if n == 'SIntNegate':
        return v[0] != MIN
    if n == 'SIntNext':
        return v[0] != MAX
    if n == 'SIntPrev':
        return v[0] != MIN
    if n == 'SIntGcd':
        return v[0] != MIN and v[1] != MIN
    if n in ('SIntPlusMod', 'SIntMinusMod', 'SIntTimesMod'):
        return v[2] > 0 and 0 <= v[0] < v[2] and 0 <= v[1] < v[2] and v[2] < (1 << 62)
    if n == 'SIntTimesModInv':
        return False
    if n == 'SIntShiftUp':
        return 0 <= v[1] < 64 and MIN <= (v[0] << v[1]) <= MAX
    if n in ('SIntShiftDn', 'SIntBit'):
        return 0 <= v[1] < 64
    if n in ('BIntShiftUp', 'BIntShiftDn', 'BIntBit'):
        return 0 <= v[1] <= 200 and (n != 'BIntBit' or v[0] >= 0)
    if n == 'BIntSIPower':
        return 0 <= v[1] <= 64 and abs(v[0]) < (1 << 33)
    if n == 'BIntBIPower':
        return 0 <= v[1] <= 64 and abs(v[0]) < (1 << 33)
    if n == 'BIntPowerMod':
        return v[2] != 0 and 0 <= v[1] <= (1 << 64) + 1 and abs(v[2]) > 1
    if n == 'BIntToSInt':
        return MIN <= v[0] <= MAX
    if n == 'CharNum':
        return 0 <= v[0] < 128
    if n == 'BIntLength':
        return v[0] != 0
    if n in ('SIntToSFlo', 'SIntToDFlo', 'BIntToSFlo', 'BIntToDFlo'):
        return abs(v[0]) < (1 << 53) if 'DFlo' in n else abs(v[0]) < (1 << 24)
    if n in ('SFloTruncate', 'DFloTruncate', 'SFloFraction', 'DFloFraction'):
        return True
    if n in ('SFloDivide', 'DFloDivide') and v[1] in ('0.0', '-0.0') and v[0] in ('0.0', '-0.0'):
        return False          # 0/0 is NaN: payload and sign are not defined
    if n[:4] in ('SFlo', 'DFlo') and n[4:] in ('Plus', 'Minus', 'Times', 'Divide', 'TimesPlus', 'Next', 'Prev'):
        # results that overflow to infinity (or are NaN) are left to the dedicated non-finite family
        import struct
        try:
            x = [float(t) for t in v]
            if n[0] == 'S':
                x = [struct.unpack('f', struct.pack('f', t))[0] for t in x]
            o = n[4:]
            r = (x[0] + x[1] if o == 'Plus' else x[0] - x[1] if o == 'Minus' else x[0] * x[1] if o == 'Times' else
                 x[0] / x[1] if o == 'Divide' else x[0] * x[1] + x[2] if o == 'TimesPlus' else x[0])
            if n[0] == 'S':
                r = struct.unpack('f', struct.pack('f', r))[0]
        except (OverflowError, ZeroDivisionError):
            pass      # overflow to infinity is a defined float result: the folder must leave it to run time
        return True
    if n in ('WordDivideDouble',):
        return v[2] != 0 and v[0] < v[2]
    if n in ('WordPlusStep',):
        return v[2] <= 1
    if n in ('SIntToHInt',):
        return -(1 << 15) <= v[0] < (1 << 15)
    if n in ('SIntToByte',):
        return 0 <= v[0] < 256
    if n in ('SFloPrev', 'SFloNext', 'DFloPrev', 'DFloNext'):
        return True
    if n == 'DFloToSFlo':
        return v[0] not in ('1.7976931348623157e308', '4.9e-324', '1.0e-10', '0.1', '123456.789', '1.0e30', '1.0e10')
    return True


def tdiv(a, b):
    q = abs(a) // abs(b)
    if (a < 0) != (b < 0):
        q = -q
    return q, a - q * b


def define(n, v):
    """mathematical definition for boolean / character / integer builtins (None = only compared across evaluators)"""
    b2 = lambda x: 'T' if x else 'F'
    try:
        if n == 'BoolNot': return b2(not v[0])
        if n == 'BoolAnd': return b2(v[0] and v[1])
        if n == 'BoolOr': return b2(v[0] or v[1])
        if n == 'BoolEQ': return b2(v[0] == v[1])
        if n == 'BoolNE': return b2(v[0] != v[1])
        if n == 'CharIsDigit': return b2(48 <= v[0] <= 57)
        if n == 'CharIsLetter': return b2(65 <= v[0] <= 90 or 97 <= v[0] <= 122)
        if n == 'CharEQ': return b2(v[0] == v[1])
        if n == 'CharNE': return b2(v[0] != v[1])
        if n == 'CharLT': return b2(v[0] < v[1])
        if n == 'CharLE': return b2(v[0] <= v[1])
        if n == 'CharLower': return str(v[0] + 32 if 65 <= v[0] <= 90 else v[0])
        if n == 'CharUpper': return str(v[0] - 32 if 97 <= v[0] <= 122 else v[0])
        if n == 'CharOrd': return str(v[0])
        if n == 'CharNum': return str(v[0])
        for P in ('SInt', 'BInt'):
            if not n.startswith(P):
                continue
            o = n[4:]
            a = v[0] if v else None
            if o == 'IsZero': return b2(a == 0)
            if o == 'IsNeg': return b2(a < 0)
            if o == 'IsPos': return b2(a > 0)
            if o == 'IsEven': return b2(a % 2 == 0)
            if o == 'IsOdd': return b2(a % 2 == 1)
            if o == 'EQ': return b2(a == v[1])
            if o == 'NE': return b2(a != v[1])
            if o == 'LT': return b2(a < v[1])
            if o == 'LE': return b2(a <= v[1])
            if o == 'Negate': return str(-a)
            if o == 'Prev': return str(a - 1)
            if o == 'Next': return str(a + 1)
            if o == 'Plus': return str(a + v[1])
            if o == 'Minus': return str(a - v[1])
            if o == 'Times': return str(a * v[1])
            if o == 'TimesPlus': return str(a * v[1] + v[2])
            if o == 'Quo': return str(tdiv(a, v[1])[0])
            if o == 'Rem' and P == 'SInt': return str(tdiv(a, v[1])[1])
            if o == 'Mod' and P == 'SInt': return ('mod', a, v[1])
            if o == 'Divide' and P == 'SInt': return '%d,%d' % tdiv(a, v[1])
            if o == 'Divide' and P == 'BInt': return '%d,%d' % tdiv(a, v[1])
            if o == 'Gcd': return str(math.gcd(a, v[1]))
            if o == 'PlusMod': return ('mod', a + v[1], v[2])
            if o == 'MinusMod': return ('mod', a - v[1], v[2])
            if o == 'TimesMod': return str((a * v[1]) % v[2])
            if o == 'Length': return str(abs(a).bit_length())      # bit length of the magnitude, for both signs
            if o == 'ShiftUp': return str(a << v[1])
            if o == 'ShiftDn' and (P == 'SInt' or a >= 0): return str(a >> v[1])
            if o == 'Bit' and a >= 0: return b2((a >> v[1]) & 1)
            if o == 'Bit' and P == 'SInt': return b2((a >> v[1]) & 1)
            if o == 'Not' and P == 'SInt': return str(~a)
            if o == 'And' and P == 'SInt': return str(a & v[1])
            if o == 'Or' and P == 'SInt': return str(a | v[1])
            if o == 'XOr' and P == 'SInt': return str(a ^ v[1])
            if o == 'SIPower' or o == 'BIPower': return str(a ** v[1])
            if o == 'ToBInt' or o == 'ToSInt': return str(a)
            if o == 'IsSingle': return None
        if n == 'WordTimesDouble':
            p = v[0] * v[1]
            return '%d,%d' % (wrap(p >> 64), wrap(p))
        if n == 'WordDivideDouble':
            q, r = divmod((v[0] << 64) | v[1], v[2])
            return '%d,%d,%d' % (wrap(q >> 64), wrap(q), wrap(r))
        if n == 'WordPlusStep':
            s = v[0] + v[1] + v[2]
            return '%d,%d' % (wrap(s >> 64), wrap(s))
        if n == 'WordTimesStep':
            s = v[0] * v[1] + v[2] + v[3]
            return '%d,%d' % (wrap(s >> 64), wrap(s))
    except Exception:
        return None
    return None


def lit(t, v):
    if t == 'Bool':
        return 'BoolTrue()' if v else 'BoolFalse()'
    if t == 'Char':
        return 'CharNum(ArrToSInt("%d" pretend Arr))' % v
    if t == 'BInt':
        return 'ArrToBInt("%d" pretend Arr)' % v
    if t == 'SFlo':
        return 'ArrToSFlo("%s" pretend Arr)' % v
    if t == 'DFlo':
        return 'ArrToDFlo("%s" pretend Arr)' % v
    if t == 'Word':
        return '(ArrToSInt("%d" pretend Arr) pretend Word)' % wrap(v)
    return 'ArrToSInt("%d" pretend Arr)' % v


OPQ = {'Bool': 'qb', 'Char': 'qc', 'SInt': 'qs', 'BInt': 'qi', 'SFlo': 'qf', 'DFlo': 'qd', 'Word': 'qw'}
PRN = {'Bool': 'pb', 'Char': 'pc', 'SInt': 'ps', 'BInt': 'pi', 'SFlo': 'pf', 'DFlo': 'pd', 'Word': 'pw', 'HInt': 'ph', 'XByte': 'px'}

PRELUDE = '''#include "aldor"
#include "aldorio"
import from Machine;
import {
%s
} from Builtin;
import from MachineInteger, Integer;
tg: MachineInteger := 0;
lv: MachineInteger := 1;
-- opaque values: a recursion whose depth is a run-time variable, never folded
qb(x: Bool, n: MachineInteger): Bool == if n = 0 then x else qb(x, n - 1);
qc(x: Char, n: MachineInteger): Char == if n = 0 then x else qc(x, n - 1);
qs(x: SInt, n: MachineInteger): SInt == if n = 0 then x else qs(x, n - 1);
qi(x: BInt, n: MachineInteger): BInt == if n = 0 then x else qi(x, n - 1);
qf(x: SFlo, n: MachineInteger): SFlo == if n = 0 then x else qf(x, n - 1);
qd(x: DFlo, n: MachineInteger): DFlo == if n = 0 then x else qd(x, n - 1);
qw(x: Word, n: MachineInteger): Word == if n = 0 then x else qw(x, n - 1);
tag(): () == { free tg; stdout << "R" << tg << "="; tg := tg + 1 }
sep(): () == { stdout << "," }
eol(): () == { stdout << newline }
ps(x: SInt): () == { stdout << (x pretend MachineInteger) }
pw(x: Word): () == { stdout << (x pretend MachineInteger) }
ph(x: HInt): () == { stdout << (HIntToSInt(x) pretend MachineInteger) }
px(x: XByte): () == { stdout << (ByteToSInt(x) pretend MachineInteger) }
pb(x: Bool): () == { stdout << (if (x pretend Boolean) then "T" else "F") }
pc(x: Char): () == { stdout << (CharOrd(x) pretend MachineInteger) }
pi(x: BInt): () == { stdout << (x pretend Integer) }
pd(x: DFlo): () == { (s, e, w1, w2) := DFloDissemble x; stdout << (if (s pretend Boolean) then "-" else "+") << (e pretend MachineInteger) << ":" << (w1 pretend MachineInteger) }
pf(x: SFlo): () == pd(SFloToDFlo x);
'''


def make_calls(tier):
    D = domains(tier)
    ops = parse_ops()
    decl = {'ArrToSInt: Arr -> SInt', 'ArrToBInt: Arr -> BInt', 'ArrToSFlo: Arr -> SFlo', 'ArrToDFlo: Arr -> DFlo',
            'SFloToDFlo: SFlo -> DFlo', 'DFloDissemble: DFlo -> (Bool,SInt,Word,Word)', 'BoolTrue: () -> Bool',
            'BoolFalse: () -> Bool', 'CharNum: SInt -> Char', 'CharOrd: Char -> SInt', 'HIntToSInt: HInt -> SInt', 'ByteToSInt: XByte -> SInt'}
    calls = []   # (name, vals, pattern, text, expected or None)
    sel = []
    for n, a, r in ops:
        if n in SKIP or not set(a) <= OKT or not set(r) <= set(PRN) or not r or n.startswith('Format') or n.startswith('Scan'):
            continue
        if n in ('ArrToSInt', 'ArrToBInt', 'ArrToSFlo', 'ArrToDFlo', 'SFloDissemble', 'DFloDissemble'):
            continue
        sel.append((n, a, r))
        decl.add('%s: (%s) -> %s' % (n, ', '.join(a), r[0] if len(r) == 1 else '(' + ', '.join(r) + ')'))
        ar = len(a)
        if ar == 0:
            pats = ['']
        elif ar == 1:
            pats = ['c', 'o']
        elif ar == 2:
            pats = ['cc', 'oo', 'co', 'oc', 'xx']
        else:
            pats = ['c' * ar, 'o' * ar] + (['c' * i + 'o' + 'c' * (ar - i - 1) for i in range(ar)] if tier == 'thorough' else [])
        small = [set(dom(D, t, 3, i, n)) for i, t in enumerate(a)]
        for vals in itertools.product(*[dom(D, t, ar, i, n) for i, t in enumerate(a)]):
            if not in_domain(n, vals):
                continue
            exp = define(n, vals)
            # quick tier: the full product is evaluated with constant operands (folder) only; the other patterns use the reduced sets
            insmall = all(v in sm for v, sm in zip(vals, small))
            for p in pats:
                if tier == 'quick' and ar == 2 and p != 'cc' and not insmall and a[0] in ('SInt', 'BInt', 'Char'):
                    continue
                if p == 'xx':
                    if a[0] != a[1] or vals[0] != vals[1]:
                        continue
                    # the same opaque variable in both positions (x op x rules of the simplifier)
                    ex = '%s(xv%s, xv%s)' % (n, a[0], a[0])
                    pre = 'xv%s: %s := %s(%s, lv); ' % (a[0], a[0], OPQ[a[0]], lit(a[0], vals[0]))
                else:
                    ex = '%s(%s)' % (n, ', '.join(lit(t, v) if c == 'c' else '%s(%s, lv)' % (OPQ[t], lit(t, v)) for t, v, c in zip(a, vals, p)))
                    pre = ''
                if len(r) == 1:
                    body = '{ %stag(); %s(%s); eol() }' % (pre, PRN[r[0]], ex)
                else:
                    vs = ['r%d%s' % (i, n) for i in range(len(r))]
                    body = '{ %s(%s) := %s; tag(); %s; eol() }' % (pre, ', '.join(vs), ex, '; sep(); '.join('%s(%s)' % (PRN[t], x) for t, x in zip(r, vs)))
                calls.append((n, vals, p, body, exp))
    # nested single-float arithmetic: inner(x, c1) then outer(., c2) with x opaque and c1, c2 literal.  The value of the inner
    # operation must be rounded to single precision before the outer one uses it, on every evaluator.
    f4 = ['SFloPlus', 'SFloMinus', 'SFloTimes', 'SFloDivide']
    xs = D['FS'] if tier == 'thorough' else ['1.0', '-2.5', '0.1', '1.0e-10', '123456.789', '3.4028235e38', '1.4e-45']
    cs_ = ['0.1', '1.0e30', '3.25', '1.0e-10', '123456.789'] if tier == 'thorough' else ['0.1', '1.0e30', '3.25']
    for outer in f4:
        for inner in f4:
            nm = '%s.%s' % (outer, inner)
            sel.append((nm, ['SFlo', 'SFlo', 'SFlo'], ['SFlo']))
            for x, c1, c2 in itertools.product(xs, cs_, cs_):
                for p in ('occ', 'ooo'):
                    a1, a2 = (lit('SFlo', c1), lit('SFlo', c2)) if p == 'occ' else ('qf(%s, lv)' % lit('SFlo', c1), 'qf(%s, lv)' % lit('SFlo', c2))
                    ex = '%s(%s(qf(%s, lv), %s), %s)' % (outer, inner, lit('SFlo', x), a1, a2)
                    calls.append((nm, (x, c1, c2), p, '{ tag(); pf(%s); eol() }' % ex, None))
    return sel, sorted(decl), calls


def unit_text(decl, cs, base):
    return PRELUDE % '\n'.join('\t%s;' % d for d in decl) + 'tg := %d;\n' % base + '\n'.join(c[3] for c in cs) + '\n'


def parse(out):
    return dict(re.findall(r'^R(\d+)=(.*)$', out, re.M))


def main(tier):
    ck = Check(PID, 'exploration', tier)
    b = ck.build('aldor', 'foam', 'libaldor')
    tc = TC(b, 'aldor')
    sel, decl, calls = make_calls(tier)
    PACK = 200
    # constant-pattern calls and opaque-pattern calls go to different units, so that "was folded" can be read off the .fm
    groups = {}
    for c in calls:
        groups.setdefault('const' if set(c[2]) <= {'c'} else 'opq', []).append(c)
    units = []
    for g, cs in groups.items():
        for i in range(0, len(cs), PACK):
            units.append((g, cs[i:i + PACK]))
    folded_total = [0]
    notfolded = {}

    def do_unit(ui):
        g, cs = units[ui]
        base = ui * PACK
        text = unit_text(decl, cs, base)
        res = {}
        d = mkdir('%s/u%d' % (ck.work, ui))
        if ck.expired():
            return ui, None
        src = write(d + '/u%d.as' % ui, text)
        res['interp-Q0'] = tc.interp(src, ('-Q0', '-Qdeadvar'), d, timeout=150)
        res['interp-Q2'] = tc.interp(src, ('-Q2',), d, timeout=150)
        dc = mkdir(d + '/c')
        srcc = write(dc + '/u%d.as' % ui, text)
        exe, r = tc.cexe(srcc, ('-Q0',), dc, timeout=150)
        res['c-Q0'] = tc.runexe(exe) if exe else r
        dc2 = mkdir(d + '/c2')
        srcc2 = write(dc2 + '/u%d.as' % ui, text)
        exe, r = tc.cexe(srcc2, ('-Q2',), dc2, timeout=150)
        res['c-Q2'] = tc.runexe(exe) if exe else r
        nf = None
        if g == 'const':
            r = tc.aldor(['-Q2', '-Ffm=f.fm', 'u%d.as' % ui], d, timeout=150)
            try:
                fm = open(d + '/f.fm').read()
                nf = {}
                for n in set(c[0] for c in cs):
                    k = len(re.findall(r'\(BCall %s\b' % n, fm))
                    nf[n] = k
            except OSError:
                pass
        import shutil
        shutil.rmtree(d, ignore_errors=True)
        return ui, (res, nf)

    opsbad = {}
    for ui, rr in pmap(do_unit, range(len(units))):
        g, cs = units[ui]
        base = ui * PACK
        if rr is None:
            ck.cut('unit %d not run' % ui)
            continue
        res, nf = rr
        outs = {}
        for k, r in res.items():
            if r.timeout:
                ck.report('unit-route-timeout=%s' % k, 'unit %d (%s) route %s timed out' % (ui, g, k), files={'u.as': unit_text(decl, cs, base)})
                continue
            outs[k] = parse(r.text())
            if r.rc != 0:
                outs[k]['__rc'] = r.rc
                outs[k]['__tail'] = r.text()[-400:]
        if nf is not None:
            for c in cs:
                if nf.get(c[0], 1) == 0:
                    folded_total[0] += 1
            for n, k in nf.items():
                if k:
                    notfolded[n] = notfolded.get(n, 0) + k
        rtypes = {x[0]: x[2] for x in sel}
        for i, (n, vals, p, body, exp) in enumerate(cs):
            r = rtypes.get(n, ['?'])
            tagk = str(base + i)
            vals_by = {k: o.get(tagk) for k, o in outs.items()}
            if r[0] in ('SFlo', 'DFlo') and set(p) - {'c'}:
                # -Q2 turns on ffold, which by design treats float arithmetic algebraically (0 + x => x): the sign of a zero
                # result is not preserved with non-constant operands; compare zeros without their sign there
                pass
            if r[0] in ('SFlo', 'DFlo') and set(p) - {'c'}:
                # sign of a zero result: -Q2 enables ffold (float arithmetic treated algebraically, 0 - x => -x) and expression
                # sharing compares constants numerically (0.0 == -0.0); zero results are compared without their sign here.
                # The exactness of the -0.0 literal itself is checked by C19.
                vals_by = {k: (v.replace('--1023:0', '+-1023:0') if v else v) for k, v in vals_by.items()}
            ck.count(len(vals_by))
            got = set(vals_by.values())
            ok = len(got) == 1 and None not in got
            if ok and isinstance(exp, tuple):
                # modulus: the sign convention is not part of the definition; result must be congruent and smaller than the modulus
                try:
                    g = int(list(got)[0])
                    ok = (g - exp[1]) % abs(exp[2]) == 0 and abs(g) < abs(exp[2])
                except ValueError:
                    ok = False
            elif ok and exp is not None and exp not in got:
                ok = False
            if ok:
                ck.nontrivial((n, list(got)[0]))
                continue
            e = opsbad.setdefault(n, [])
            e.append((vals, p, vals_by, exp, body, {k: (o.get('__rc'), o.get('__tail')) for k, o in outs.items() if '__rc' in o}))
    for n, lst in sorted(opsbad.items()):
        vals, p, vals_by, exp, body, rcs = lst[0]
        routes = sorted(k for k, v in vals_by.items() if v != (exp if exp is not None else max(list(vals_by.values()), key=lambda x: list(vals_by.values()).count(x))))
        key = 'op=%s,routes=%s' % (n, '+'.join(routes))
        desc = '%s%s pattern %s: %s, mathematical definition %s; %d failing tuples' % (n, vals, p or '-', vals_by, exp, len(lst))
        if rcs:
            desc += '\nroute failures: %s' % rcs
        ck.report(key, desc, files={'u.as': unit_text(decl, [(n, vals, p, body, exp)], 0),
                                    'failing.txt': '\n'.join('%s%s pattern=%s got=%s want=%s' % (n, x[0], x[1], x[2], x[3]) for x in lst[:200]) + '\n'})
    ck.cov.update({
        'rule': 'every builtin of sal_lang.as with Bool/Char/SInt/BInt/SFlo/DFlo/Word operands x full product of per-type boundary sets x '
                'argument patterns (c = literal constant, o = opaque run-time value, xx = same opaque variable twice), plus the 16 nestings outer(inner(x, c1), c2) of the four single-float arithmetic operations, each evaluated by '
                'interp -Q0, interp -Q2, C -Q0, C -Q2; distinct = distinct (operation, result) pairs on which all routes agreed',
        'builtins': len([x for x in sel if '.' not in x[0]]), 'nested_single_float_shapes': len([x for x in sel if '.' in x[0]]), 'calls': len(calls), 'units': len(units),
        'constant_calls_confirmed_folded_at_Q2': folded_total[0],
        'builtins_left_unfolded_at_Q2': notfolded,
        'samples': [{'call': 'SIntIsOdd(ArrToSInt("-3" pretend Arr))', 'pattern': 'c', 'expect': 'T'},
                    {'call': 'BoolAnd(qb(BoolTrue(), lv), BoolFalse())', 'pattern': 'oc', 'expect': 'F'}],
    })
    ck.assumptions += ['argument tuples that make the C operation undefined (overflow, shift >= word size, division by zero) are outside the domain',
                       'float results are compared as bit patterns across evaluators only']
    ck.finish()


if __name__ == '__main__':
    main(sys.argv[1] if len(sys.argv) > 1 else 'quick')
