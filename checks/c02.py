"""C02 — optimisation settings never change program behaviour.
Cases x configurations: the ten levels, the twenty single switches (-Q0 -Q<p>), their complements (-Q9 -Qno-<p>) and
every pair of switches away from either extreme; each outcome must equal the outcome with all optimisation off
(-Q0 on the C route; the interpreter cannot execute some -Q0 code, so the interpreter is compared with that same baseline)."""
import sys, os, itertools
from vlib.common import Check, VERIF
from vlib.runners import TC
from vlib import families, progspace, diffeng

PID = 'C02'
PASSES = ['inline', 'inline-all', 'cfold', 'ffold', 'hfold', 'deadvar', 'dassign', 'peep', 'cprop', 'cse', 'env', 'emerge', 'emerge-rr',
          'flow', 'cast', 'cc', 'del-assert', 'cc-fnonstd', 'killp', 'argsub']
BASE = ('c', ('-Q0',))


def plan(tier):
    """[(config, family filter or None)]"""
    P = []
    small = ['F2', 'F4', 'F5', 'F6', 'F6M', 'F7', 'F7M', 'F8', 'F9', 'F10']
    bait = ['F5', 'F7', 'F7M', 'F10']
    if tier == 'quick':
        core = ['F2', 'F5', 'F6M', 'F7', 'F7M', 'F8', 'F9', 'F10']
        for q in (0, 1, 2, 3, 5, 9):
            P.append((('interp', ('-Q%d' % q,)), small))
        for q in (1, 2, 9):
            P.append((('interp', ('-Q%d' % q,)), ['F1', 'F3']))
        P.append((BASE, None))
        for q in (2, 9):
            P.append((('c', ('-Q%d' % q,)), core))
        P.append((('interp', ('-O',)), bait))
        for p in PASSES:
            P.append((('interp', ('-Q0', '-Q' + p)), bait))
            P.append((('interp', ('-Q9', '-Qno-' + p)), bait))
        for p, q in itertools.combinations(PASSES, 2):
            P.append((('interp', ('-Q0', '-Q' + p, '-Q' + q)), ['F10']))
    else:
        for q in range(10):
            P.append((('interp', ('-Q%d' % q,)), None))
            P.append((('c', ('-Q%d' % q,)), None))
        P.append((('interp', ('-O',)), None))
        P.append((('c', ('-O',)), None))
        for p in PASSES:
            P.append((('interp', ('-Q0', '-Q' + p)), None))
            P.append((('interp', ('-Q9', '-Qno-' + p)), small))
            P.append((('c', ('-Q0', '-Q' + p)), bait))
        for p, q in itertools.combinations(PASSES, 2):
            P.append((('interp', ('-Q0', '-Q' + p, '-Q' + q)), bait))
            P.append((('interp', ('-Q9', '-Qno-' + p, '-Qno-' + q)), ['F10']))
    return P


def main(tier):
    ck = Check(PID, 'exploration', tier, deadline_s=900 if tier == 'quick' else 3600)
    b = ck.build('aldor', 'foam', 'libaldor')
    tc = TC(b)
    cases = families.all_cases(tier)
    exp = {k: progspace.expected(k, c)[0] for k, (f, c) in enumerate(cases)}
    P = plan(tier)
    # the recursion family F5R is only run where inlining is bounded (anything below -Q9)
    allf = sorted(set(f for f, _ in cases))
    P2 = []
    for cfg, flt in P:
        q9 = cfg[1][0] == '-Q9'
        fl = list(flt) if flt else list(allf)
        if 'F5' in fl and not q9 and 'F5R' not in fl:
            fl.append('F5R')
        if q9:
            fl = [f for f in fl if f != 'F5R']
        P2.append((cfg, fl))
    P = P2
    # group configurations by family filter so that each group is one packed sweep
    groups = {}
    for cfg, flt in P:
        groups.setdefault(tuple(flt) if flt else None, []).append(cfg)
    outcomes = {}     # label -> {k: Outcome}
    for flt, cfgs in groups.items():
        idx = [k for k, (f, c) in enumerate(cases) if flt is None or f in flt]
        sub = [cases[k] for k in idx]
        subexp = {i: [l.replace('K%d:' % idx[i], 'K%d:' % i) for l in exp[idx[i]]] for i in range(len(idx))}
        lowq = all(c[1][0] == '-Q0' and c[0] == 'interp' and 'inline' not in ' '.join(c[1]) for c in cfgs)
        res = {}
        for sel, pack in ((True, 36), (False, 12)):
            part = [c for c in cfgs if (c[1][0] == '-Q0' and c[0] == 'interp' and 'inline' not in ' '.join(c[1])) == sel]
            if part:
                res.update(diffeng.run_configs(ck, tc, sub, part, pack=pack, expected=subexp, timeout=60 if tier == 'quick' else 150))
        for lab, by in res.items():
            d = outcomes.setdefault(lab, {})
            for i, o in by.items():
                o.lines = [l.replace('K%d:' % i, 'K%d:' % idx[i], 1) for l in o.lines]
                d[idx[i]] = o
    base = outcomes.get(diffeng.cfg_label(BASE), {})
    noverdict = {}
    nconf = 0
    for cfg, flt in P:
        lab = diffeng.cfg_label(cfg)
        if cfg == BASE:
            continue
        nconf += 1
        for k, o in outcomes.get(lab, {}).items():
            fam, c = cases[k]
            bo = base.get(k)
            want = bo.lines if (bo is not None and bo.status == 'ok') else exp[k]
            if o.status == 'timeout':
                noverdict[lab] = noverdict.get(lab, 0) + 1      # compile time is not program behaviour
                continue
            if o.status == 'ok' and o.lines == want:
                ck.nontrivial((lab, fam, tuple(o.lines)))
                continue
            files, cmds = diffeng.replay_files(tc, fam, c, k, [BASE, cfg])
            files['baseline.txt'] = '\n'.join(want) + '\n'
            files['got.txt'] = '\n'.join(o.lines) + '\n'
            ck.report('case=%s@%s' % (diffeng.case_id(fam, c), lab),
                      'family %s: %s differs from all-optimisation-off: status %s\n got      %s\n baseline %s' % (fam, lab, o.status, o.lines[:12], want[:12]),
                      files, cmds)
    # ---- pinned corpus (thorough): every program the repository's suite builds and runs, same route, across levels
    ncorp = 0
    if tier == 'thorough' and not ck.expired():
        from vlib import corpus
        b2 = ck.build('aldor', 'foam', 'foamlib', 'axllib')
        tca = TC(b2, 'axllib')
        clevels = ['-Q0', '-Q1', '-Q2', '-Q3', '-Q5']
        names, got = corpus.matrix(ck, tca, ('c', 'interp'), clevels, ck.work)
        for n in names:
            for route in ('c', 'interp'):
                b0 = got.get((n, route, '-Q0'), [])
                if len(b0) < 2 or b0[0].key() != b0[1].key() or b0[0].timeout or b0[0].stage != 'run':
                    continue          # baseline does not build, timed out, or is not reproducible: outside "runs deterministically"
                for q in clevels[1:]:
                    v = got.get((n, route, q))
                    if not v:
                        continue
                    v = v[0]
                    ck.count()
                    ncorp += 1
                    if v.timeout or v.stage != 'run':
                        # compile time and compile-time acceptance are not program behaviour
                        noverdict['corpus:' + q] = noverdict.get('corpus:' + q, 0) + 1
                        continue
                    if v.key() == b0[0].key():
                        ck.nontrivial(('corpus', n, route, q))
                    else:
                        ck.report('corpus=%s@%s:%s' % (n, route, q), 'corpus program %s on %s: %s (rc %s, %d bytes) differs from -Q0 (rc %s, %d bytes)' % (
                            n, route, q, v.rc, len(v.out), b0[0].rc, len(b0[0].out)), files={'got.txt': v.out, 'baseline.txt': b0[0].out},
                            cmds=['# lib/axllib/test/%s/%s.as with the axllib library, %s vs -Q0 on the %s route (interp = compile to .ao, then -Ginterp on the .ao)' % (n, n, q, route)])
    ck.cov['corpus_program_runs'] = ncorp
    ck.cov.update({
        'rule': 'cases of the enumerated families x optimisation configurations (10 levels, -O, 20 single switches, 20 complements, all pairs of '
                'switches on the bait families), interpreter and C routes; outcome (tagged stdout + exit class) must equal the -Q0 C baseline; '
                'distinct = distinct (configuration, family, output) triples that agreed',
        'cases': len(cases), 'configurations': nconf,
        'no_verdict_compile_timeouts': noverdict,
        'samples': [{'config': diffeng.cfg_label(P[i][0]), 'families': P[i][1]} for i in (0, len(P) // 2, len(P) - 1)],
    })
    ck.assumptions += ['a compilation that exceeds the time limit at some configuration gives no verdict for that configuration (counted)',
                       'programs contain no failing assertions (-Qdel-assert removes assertion checks by design)']
    ck.finish()


if __name__ == '__main__':
    main(sys.argv[1] if len(sys.argv) > 1 else 'quick')
