"""C01 — programs produce the result the language defines.
Every case of the enumerated families is compiled and run on both user-visible routes (interpreter and C executable,
-Q1); its tagged output must equal the output of the independent reference evaluator, and program-level endings
(normal, uncaught exception) must give the defined exit class."""
import sys, os
from vlib.common import Check, pmap, VERIF
from vlib.runners import TC, mkdir, write
from vlib import families, progspace, progrun, diffeng

PID = 'C01'
CONFIGS = [('interp', ('-Q1',)), ('c', ('-Q1',))]


def main(tier):
    ck = Check(PID, 'exploration', tier)
    b = ck.build('aldor', 'foam', 'libaldor')
    tc = TC(b)
    cases = families.all_cases(tier)
    exp = {}
    for k, (fam, c) in enumerate(cases):
        exp[k] = progspace.expected(k, c)[0]
    res = diffeng.run_configs(ck, tc, cases, CONFIGS, expected=exp)
    fams = {}
    for cfg in CONFIGS:
        lab = diffeng.cfg_label(cfg)
        for k, (fam, c) in enumerate(cases):
            o = res[lab].get(k)
            if o is None:
                continue
            fams[fam] = fams.get(fam, 0) + 1
            if o.status == 'ok' and o.lines == exp[k]:
                ck.nontrivial((fam, tuple(o.lines)))
                continue
            files, cmds = diffeng.replay_files(tc, fam, c, k, [cfg])
            files['expected.txt'] = '\n'.join(exp[k]) + '\n'
            files['got.txt'] = '\n'.join(o.lines) + '\n'
            ck.report('case=%s@%s' % (diffeng.case_id(fam, c), lab),
                      'family %s under %s: status %s\n got      %s\n expected %s' % (fam, lab, o.status, o.lines[:12], exp[k][:12]), files, cmds)
    # program endings: one program per file
    ends = families.f7_endings()

    def ending(j):
        (name, body, cls), cfg = j
        k = 0
        d = mkdir('%s/end-%s-%s' % (ck.work, name, cfg[0]))
        text = progspace.render_unit([('MI', body)], 0)
        src = write(d + '/e.as', text)
        if cfg[0] == 'interp':
            r = tc.interp(src, cfg[1], d)
        else:
            exe, r = tc.cexe(src, cfg[1], d)
            if exe:
                r = tc.runexe(exe)
        return j, r, text
    for j, r, text in pmap(ending, [(e, c) for e in ends for c in CONFIGS]):
        (name, body, cls), cfg = j
        ck.count()
        want, unc = progspace.expected(0, ('MI', body))
        got = progrun.split_output(r.text()).get(0, [])
        okcls = (r.rc == 0) == (cls == 0) and not r.timeout and r.sig == 0
        if got == want and okcls:
            ck.nontrivial(('ending', name, cfg[0], r.rc != 0))
        else:
            ck.report('ending=%s@%s' % (name, diffeng.cfg_label(cfg)),
                      'program ending %s under %s: exit %s (want class %s), lines %s (want %s)' % (name, diffeng.cfg_label(cfg), r.rc, cls, got, want),
                      {'e.as': text, 'output.txt': r.text()[-2000:]})
    ck.cov.update({
        'rule': 'all members of families F1 (arithmetic, both integer widths, boundary literals), F2 (literal forms), F3 (loop control), F4 (generators), '
                'F5 (closures), F6 (lists/arrays/records/strings/booleans), F7 (exceptions), F8 (overloading, macros), F9 (categories, defaults, '
                'parametrised domains), F10 (optimiser bait) within the tier bound, on interp -Q1 and C -Q1, against the reference evaluator; '
                'distinct = distinct (family, output) pairs that matched the reference',
        'cases': len(cases), 'case_runs_per_family': fams,
        'samples': [progspace.render_case(0, cases[i][1])[:600] for i in (0, len(cases) // 2)],
    })
    ck.assumptions += ['the reference evaluator (vlib/progspace.py Eval) implements the language guide: 64-bit machine integers, truncating quo, '
                       'rem with the dividend\'s sign, non-negative mod, short-circuit and/or, closures capture variables by reference']
    ck.finish()


if __name__ == '__main__':
    main(sys.argv[1] if len(sys.argv) > 1 else 'quick')
