"""C17 — damaged library files are refused, never silently used.
Fixture objects (.ao), FOAM text (.fm) and archives (.al) are truncated at every length and changed in a single byte at
every offset; each damaged file is given to consumers (C generation from the object, a client compiling against it, the
interpreter).  Outcome must be: same outputs as with the intact file and exit 0, or a diagnostic and non-zero exit;
never a fault, hang, internal-bug report or exit 0 with different output."""
import os, re, sys, struct, shutil, hashlib
from vlib.common import Check, run, pmap, VERIF, NCPU
from vlib import faults
from vlib.runners import TC, mkdir, write

PID = 'C17'
TMO = 8

LIBSRC = '''#include "aldor"
VLibD: with { val: () -> MachineInteger; twice: MachineInteger -> MachineInteger; name: () -> String } == add {
	import from MachineInteger;
	val(): MachineInteger == 41;
	twice(n: MachineInteger): MachineInteger == n + n + 100000;
	name(): String == "library unit";
}
'''
CLIENT = '''#include "aldor"
#include "aldorio"
#library VL "vlib.ao"
import from VL;
import from MachineInteger, VLibD;
stdout << "C:" << val() + twice(3) << newline;
stdout << "C:" << name() << newline;
'''
MAINSRC = '''#include "aldor"
#include "aldorio"
import from MachineInteger, String;
f(n: MachineInteger): MachineInteger == if n < 2 then 1 else n * f(n - 1);
stdout << "M:" << f 10 << newline;
stdout << "M:" << "text constant" << newline;
'''


def regions(data, kind):
    """offset -> region name, from the object header (magic, versions, section table)"""
    if kind != 'ao' or len(data) < 21:
        return lambda off: kind
    try:
        first = struct.unpack('<I', data[13:17])[0]
        nent = (first - 12) // 9
        names = {}
        tab = []
        for i in range(nent):
            o = 12 + 9 * i
            nm = data[o]
            off, ln = struct.unpack('<II', data[o + 1:o + 9])
            tab.append((nm, off, ln))
        nsect = struct.unpack('<H', data[10:12])[0]
    except Exception:
        return lambda off: kind

    def reg(off):
        if off < 2:
            return 'hdr:magic'
        if off < 6:
            return 'hdr:verMajor'
        if off < 10:
            return 'hdr:verMinor'
        if off < 12:
            return 'hdr:numSect'
        if off < first:
            i = (off - 12) // 9
            f = (off - 12) % 9
            used = i < nsect
            return 'hdr:sect-%s%s' % ('name' if f == 0 else 'offset' if f < 5 else 'length', '' if used else '(unused)')
        for i, (nm, o, ln) in enumerate(tab[:nsect]):
            if o <= off < o + ln:
                return 'body:sect%d' % nm
        return 'body:?'
    return reg


def main(tier):
    ck = Check(PID, 'fault_enumeration', tier, deadline_s=900 if tier == 'quick' else 3000)
    b = ck.build('aldor', 'foam', 'libaldor')
    tc = TC(b)
    fx = mkdir(ck.work + '/fixtures')
    write(fx + '/vlib.as', LIBSRC)
    write(fx + '/client.as', CLIENT)
    write(fx + '/main.as', MAINSRC)
    r = tc.aldor(['-Q1', '-Fao', '-Ffm', 'vlib.as'], fx)
    r2 = tc.aldor(['-Q1', '-Fao', '-Ffm', 'main.as'], fx)
    run(['ar', 'cr', 'libvl.al', 'main.ao', 'vlib.ao'], cwd=fx, norand=False)
    if r.rc != 0 or r2.rc != 0 or not os.path.exists(fx + '/vlib.ao'):
        ck.report('fixture-build-failed', (r.text() + r2.text())[-800:])
        ck.finish()
    files = {n: open(fx + '/' + n, 'rb').read() for n in ('vlib.ao', 'main.ao', 'main.fm', 'libvl.al')}

    # consumers: (fixture, name, how)
    def consume(kind, d):
        """run the consumer in directory d (damaged file already in place); returns (Res, outputs bytes dict)"""
        outs = {}
        if kind == 'ao2c':       # C generation from a saved object
            r = tc.aldor(['-Fc=out.c', '-Flsp=out.lsp', 'main.ao'], d, timeout=TMO, mem_mb=3000)
            names = ['out.c', 'out.lsp']
        elif kind == 'interp':   # interpret a saved object
            r = tc.aldor(['-laldor', '-Ginterp', 'main.ao'], d, timeout=TMO, mem_mb=3000)
            names = []
            outs['stdout'] = b'\n'.join(l for l in r.out.split(b'\n') if l.startswith(b'M:'))
        elif kind == 'client':   # compile and run a client against the library object
            r = tc.aldor(['-Q1', '-Ginterp', 'client.as'], d, timeout=TMO, mem_mb=3000)
            names = []
            outs['stdout'] = b'\n'.join(l for l in r.out.split(b'\n') if l.startswith(b'C:'))
        elif kind == 'fm2c':     # FOAM text read back
            r = tc.aldor(['-Fc=out.c', 'main.fm'], d, timeout=TMO, mem_mb=3000)
            names = ['out.c']
        elif kind == 'al':       # client against an archive member
            r = tc.aldor(['-Q1', '-Y.', '-lvl', '-Ginterp', 'client2.as'], d, timeout=TMO, mem_mb=3000)
            names = []
            outs['stdout'] = b'\n'.join(l for l in r.out.split(b'\n') if l.startswith(b'C:'))
        for n in names:
            p = d + '/' + n
            outs[n] = open(p, 'rb').read() if os.path.exists(p) else None
        return r, outs

    TARGET = {'ao2c': 'main.ao', 'interp': 'main.ao', 'client': 'vlib.ao', 'fm2c': 'main.fm', 'al': 'libvl.al'}
    CLIENT2 = CLIENT.replace('#library VL "vlib.ao"\nimport from VL;\n', '#library VL "libvl.al"\nimport from VL;\n')

    def setup(kind, d, data):
        for f in os.listdir(d):
            os.remove(d + '/' + f)
        if kind == 'client':
            write(d + '/client.as', CLIENT)
        if kind == 'al':
            write(d + '/client2.as', CLIENT2)
        write(d + '/' + TARGET[kind], data)

    # reference outcomes
    ref = {}
    for kind in TARGET:
        d = mkdir('%s/ref-%s' % (ck.work, kind))
        setup(kind, d, files[TARGET[kind]])
        r, outs = consume(kind, d)
        if r.rc != 0 or any(v is None for v in outs.values()) or (('stdout' in outs) and not outs['stdout']):
            ck.report('reference-run-failed=%s' % kind, 'intact %s: rc=%s %s' % (kind, r.rc, r.text()[-500:]))
        ref[kind] = outs
    if ck.violations:
        ck.finish()

    # damage plan
    plan = []
    kinds_t = ['ao2c', 'client', 'fm2c', 'al', 'interp'] if tier == 'thorough' else ['ao2c', 'client', 'al']
    for kind in kinds_t:
        data = files[TARGET[kind]]
        for n in range(len(data)):
            plan.append((kind, 'trunc', n, None))
    vals = {'quick': [0xFF], 'thorough': [0xFF, 0x01, 0x80]}[tier]
    kinds_s = ['ao2c', 'client', 'interp', 'al', 'fm2c'] if tier == 'thorough' else ['ao2c', 'client']
    body_kinds = kinds_s if tier == 'thorough' else ['ao2c']
    for kind in kinds_s:
        data = files[TARGET[kind]]
        reg = regions(data, 'ao' if TARGET[kind].endswith('.ao') else 'other')
        for off in range(len(data)):
            hdr = reg(off).startswith('hdr')
            if not hdr and kind not in body_kinds:
                continue
            for x in (vals if not hdr else ([0xFF, 0x01, 0x80, 0x7F] if tier == 'quick' else list(range(1, 256)))):
                if kind != 'ao2c' and not hdr and x != 0xFF:
                    continue
                plan.append((kind, 'subst', off, x))
    chunks = [plan[i::NCPU * 2] for i in range(NCPU * 2)]

    def work(ci):
        d = mkdir('%s/w%d' % (ck.work, ci))
        res = []
        for kind, dmg, n, x in chunks[ci]:
            if ck.expired():
                return res, False
            data = files[TARGET[kind]]
            if dmg == 'trunc':
                bad = data[:n]
            else:
                bad = data[:n] + bytes([data[n] ^ x]) + data[n + 1:]
            setup(kind, d, bad)
            r, outs = consume(kind, d)
            cls, det = faults.classify(r)
            if cls == 'hang':
                global TMO
                old, TMO = TMO, 30
                try:
                    setup(kind, d, bad)
                    r, outs = consume(kind, d)
                finally:
                    TMO = old
                cls, det = faults.classify(r)
            if cls == 'ok':
                if r.rc == 0:
                    cls = 'same' if outs == ref[kind] else 'silent-diff'
                else:
                    cls = 'refused' if (faults.error_printed(r.text()) or r.text().strip()) else 'silent-fail'
            res.append((kind, dmg, n, x, cls, det))
        return res, True

    counts = {}
    findings = {}
    for res, done in pmap(work, range(len(chunks)), n=NCPU):
        if not done:
            ck.cut('damage chunk not finished')
        for kind, dmg, n, x, cls, det in res:
            ck.count()
            counts[cls] = counts.get(cls, 0) + 1
            if cls in ('same', 'refused'):
                ck.nontrivial((kind, dmg, n, x, cls)) if cls == 'refused' else None
                continue
            data = files[TARGET[kind]]
            reg = regions(data, 'ao' if TARGET[kind].endswith('.ao') else TARGET[kind].split('.')[-1])(min(n, len(data) - 1))
            if dmg == 'trunc':
                reg = 'hdr' if reg.startswith('hdr') else 'body'
            # coarse outcome classes keep the keys stable under load: any abnormal end is 'crash'
            oc = 'silent-diff' if cls == 'silent-diff' else ('silent-fail' if cls == 'silent-fail' else 'crash')
            key = 'kind=%s,consumer=%s,damage=%s,region=%s,outcome=%s' % (TARGET[kind].split('.')[-1], kind, dmg, reg, oc)
            findings.setdefault(key, []).append((n, x, det))
    for key, lst in sorted(findings.items()):
        n, x, det = lst[0]
        m = re.match(r'kind=(\w+),consumer=(\w+),damage=(\w+)', key)
        kind = m.group(2)
        data = files[TARGET[kind]]
        bad = data[:n] if m.group(3) == 'trunc' else data[:n] + bytes([data[n] ^ x]) + data[n + 1:]
        ck.report(key, '%d damaged variants, first: offset/length %d value-xor %s: %s' % (len(lst), n, x, det),
                  files={TARGET[kind]: bad, 'all_offsets.txt': '\n'.join('%d %s %s' % t for t in lst[:2000]) + '\n'})
        ck.known[ck.findings.match(key)] = len(lst) if ck.findings.match(key) else 0
    ck.known = {k: v for k, v in ck.known.items() if k}
    ck.cov.update({
        'rule': 'every truncation length and every single-byte substitution (xor 0xFF at every offset; header bytes: several / all values) of fixture .ao/.fm/.al files, '
                'each given to consumers %s; non-trivial = damaged variants that were refused with a diagnostic' % kinds_s,
        'outcomes': counts, 'fixture_sizes': {k: len(v) for k, v in files.items()},
        'samples': [{'file': 'main.ao', 'damage': 'truncate to 300 bytes', 'consumer': 'aldor -Fc main.ao'},
                    {'file': 'vlib.ao', 'damage': 'byte 4 ^= 0xFF (format version)', 'consumer': 'client with #library'}],
    })
    ck.assumptions += ['a damaged file whose consumer produces byte-identical outputs counts as harmless']
    ck.finish()


if __name__ == '__main__':
    main(sys.argv[1] if len(sys.argv) > 1 else 'quick')
