"""C13 — interactive evaluation equals batch evaluation.
Model state = list of accepted forms.  Histories = the good forms of a program in order with every placement of <= 2
rejected forms, plus every dependency-respecting permutation of the independent forms.  Every history is fed to the real
`aldor -Gloop`; the marker lines must equal those of `aldor -Ginterp` on the accepted forms, each rejected form must produce
an error and no marker line, and the session must reach #quit."""
import os, re, sys, itertools
from vlib.common import Check, run, pmap, VERIF
from vlib.runners import TC, mkdir, write

PID = 'C13'
HEAD = ['#include "aldor"', '#include "aldorio"', 'import from MachineInteger;']

# form sets: (good forms, dependency edges i->j meaning j needs i)
SETS = [
    (['va: MachineInteger := 5;',
      'vf(n: MachineInteger): MachineInteger == n * va + 1;',
      'stdout << "M1:" << vf 2 << newline;',
      'va := va + 10;',
      'vg(n: MachineInteger): MachineInteger == { r: MachineInteger := 0; for i in 1..n repeat r := r + vf i; r }',
      'stdout << "M2:" << vg 3 << newline;',
      'VD: with { mk: MachineInteger -> %; val: % -> MachineInteger } == add { Rep == MachineInteger; mk(n: MachineInteger): % == per n; val(d: %): MachineInteger == rep d + va }',
      'import from VD;',
      'stdout << "M3:" << val mk 7 << newline;'], None),
    (['import from List MachineInteger;',
      'vl: List MachineInteger := [1, 2, 3];',
      'stdout << "M1:" << #vl << newline;',
      'vl := cons(9, vl);',
      'vs(l: List MachineInteger): MachineInteger == { t: MachineInteger := 0; for x in l repeat t := t + x; t }',
      'stdout << "M2:" << vs vl << newline;',
      'vc: MachineInteger -> MachineInteger := (x: MachineInteger): MachineInteger +-> x + first vl;',
      'stdout << "M3:" << vc 1 << newline;'], None),
    (['vx: MachineInteger := 1;', 'vy: MachineInteger := 2;', 'vz: MachineInteger := 3;',
      'stdout << "M1:" << vx << newline;', 'stdout << "M2:" << vy << newline;', 'stdout << "M3:" << vz << newline;'],
     [(0, 3), (1, 4), (2, 5), (3, 4), (4, 5)]),     # markers keep their order; definitions are independent
]
# include files used by the last set: two forms include files that both include a third one (included once per compilation)
INCFILES = {
    'vcommon.as': 'vcnt := vcnt + 1;\nstdout << "M4:" << vcnt << newline;\n',
    'vparta.as': '#include "vcommon.as"\nstdout << "M1:" << vcnt + 10 << newline;\n',
    'vpartb.as': '#include "vcommon.as"\nstdout << "M2:" << vcnt + 20 << newline;\n',
}
SETS.append((['vcnt: MachineInteger := 0;', '#include "vparta.as"', 'stdout << "M5:" << vcnt << newline;', '#include "vpartb.as"', 'stdout << "M3:" << vcnt << newline;',
              '#include "vparta.as"', 'stdout << "M6:" << vcnt << newline;'], None))
BAD = ['vb: MachineInteger := "str";',
       'vq(n: MachineInteger): MachineInteger == n + undefinedThing;',
       'stdout << "MX:" << vnone 3 << newline;',
       'vnever := vnever2 + 1;',
       'vh(n: MachineInteger): String == n;',
       'vk(n: MachineInteger) == == 3;',
       'VE: with { q: % -> MachineInteger } == add { Rep == MachineInteger; }',
       'vundef("a", 2);',
       'stdout << "MX:" << (1 + "one") << newline;',
       ')));']


# rejected forms that touch an EXISTING declaration; each is ill-typed only once that declaration exists, so it carries a
# precondition on the model state: it is only placed after good form number `after` (0-based) of its set
STATEFUL = [
    (0, 'va := "s";', 0),                         # wrong type assigned to an existing variable
    (0, 'va: MachineInteger == 6;', 0),           # constant definition of an existing variable
    (0, 'va := vf;', 1),                          # function assigned to an integer variable
    (0, 'vg := 3;', 4),                           # assignment to an existing function constant
    (1, 'vl := 5;', 1),
    (1, 'vl: List MachineInteger == [1];', 1),
    (2, 'vx := "one";', 0),
    (2, 'vy: MachineInteger == 9;', 1),
    (0, 'vf(s: String): MachineInteger == s;', 1),            # ill-typed overload of an existing function
]


def main(tier):
    ck = Check(PID, 'model_checking', tier)
    b = ck.build('aldor', 'foam', 'libaldor')
    tc = TC(b)

    for fn, txt in INCFILES.items():
        write('%s/%s' % (ck.work, fn), txt)

    def session(forms):
        inp = ('\n'.join(HEAD + forms + ['#quit']) + '\n').encode()
        r = tc.aldor(['-Gloop'], ck.work, timeout=60, stdin=inp)
        t = r.text()
        return [l for l in re.findall(r'M[X\d]:[^\n]*', t)], t.count('(Error)'), r

    def batch(forms, name):
        d = mkdir('%s/b-%s' % (ck.work, name))
        for fn, txt in INCFILES.items():
            write('%s/%s' % (d, fn), txt)
        src = write(d + '/b.as', '\n'.join(HEAD + forms) + '\n')
        r = tc.interp(src, ('-Q1',), d)
        return [l for l in re.findall(r'M\d:[^\n]*', r.text())], r

    hist = []      # (set index, forms, bad forms in it, expected markers)
    nbad2 = 4 if tier == 'quick' else len(BAD)
    for si, (good, deps) in enumerate(SETS):
        ref, r = batch(good, 'set%d' % si)
        if r.rc != 0 or not ref:
            ck.report('batch-reference-failed=set%d' % si, r.text()[-500:])
            continue
        hist.append((si, list(good), [], ref))
        for pos in range(len(good) + 1):
            for bd in BAD:
                hist.append((si, good[:pos] + [bd] + good[pos:], [bd], ref))
        for (sj, bd, after) in STATEFUL:
            if sj != si:
                continue
            for pos in range(after + 1, len(good) + 1):
                hist.append((si, good[:pos] + [bd] + good[pos:], [bd], ref))
                for b2 in BAD[:3]:
                    for pos2 in range(pos, len(good) + 1):
                        h = good[:pos] + [bd] + good[pos:pos2] + [b2] + good[pos2:]
                        hist.append((si, h, [bd, b2], ref))
        for p1, p2 in itertools.combinations_with_replacement(range(len(good) + 1), 2):
            for b1, b2 in itertools.product(BAD[:nbad2], repeat=2):
                h = list(good)
                h.insert(p2, b2)
                h.insert(p1, b1)
                hist.append((si, h, [b1, b2], ref))
        if deps is not None:
            n = len(good)
            for perm in itertools.permutations(range(n)):
                posn = {v: i for i, v in enumerate(perm)}
                if all(posn[a] < posn[c] for a, c in deps) and list(perm) != list(range(n)):
                    hist.append((si, [good[i] for i in perm], [], ref))
    if ck.violations:
        ck.finish()

    def one(h):
        if ck.expired():
            return h, None
        return h, session(h[1])
    states = set()
    ntrans = 0
    for h, res in pmap(one, hist):
        si, forms, bads, ref = h
        if res is None:
            ck.cut('history not run')
            continue
        markers, nerr, r = res
        ck.count()
        ntrans += len(forms)
        states.add((si, tuple(f for f in forms if f not in bads)[:0], tuple(i for i, f in enumerate(forms) if f in bads), tuple(bads)))
        problem = None
        if r.timeout:
            problem = 'session did not reach #quit (timeout)'
        elif r.sig or 'Program fault' in r.text() or 'Bug:' in r.text():
            problem = 'session faulted'
        elif markers != ref:
            problem = 'marker lines differ from batch: %s vs %s' % (markers, ref)
        elif bads and nerr < len(bads):
            problem = 'only %d error(s) reported for %d rejected form(s)' % (nerr, len(bads))
        if problem:
            pos = [i for i, f in enumerate(forms) if f in bads]
            allbad = BAD + [x[1] for x in STATEFUL]
            key = 'set=%d,bad=%s,at=%s' % (si, '+'.join(str(allbad.index(x)) for x in bads) or 'none', '+'.join(map(str, pos)) or 'perm')
            ck.report(key, problem + '\n' + r.text()[-600:], files={'session.in': '\n'.join(HEAD + forms + ['#quit']) + '\n'},
                      cmds=[' '.join(tc.b.base() + tc.flags + ['-Gloop']) + ' < session.in'])
        else:
            ck.nontrivial((si, tuple(forms)))
    ck.cov.update({
        'states': len(states), 'transitions': ntrans, 'traces_validated_against_impl': len(hist),
        'evaluations': len(hist), 'distinct_nontrivial': len(ck.distinct),
        'rule': 'histories = good forms in order with every placement of <= 2 rejected forms (10 kinds; pairs over the first %d kinds), plus all dependency-respecting '
                'permutations of independent forms; the model state is the list of accepted forms, every history is executed on the real -Gloop and compared with -Ginterp; '
                'states = distinct (program, positions and kinds of rejected forms)' % nbad2,
        'samples': ['\n'.join(hist[len(hist) // 2][1])],
    })
    ck.assumptions += ['rejected forms only use never-defined names or clash within themselves, so they are ill-typed in every session state',
                       'redefinitions of existing constants are excluded (they ask an interactive question)']
    ck.finish()


if __name__ == '__main__':
    main(sys.argv[1] if len(sys.argv) > 1 else 'quick')
