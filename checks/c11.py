"""C11 — big-integer arithmetic is exact.  The repository's bigint.c/foam_i.c/dword.c (objects built from the
working tree) are driven over the complete product of a boundary value set; every result is compared with Python ints."""
import os, sys, re, math, subprocess, multiprocessing as mp
from vlib.common import Check, NCPU, VERIF
from vlib import cmodel

PID = 'C11'
KQ, KT = 70, 200
M64 = (1 << 64) - 1


def val(desc):
    t = desc.split()
    s, a, b = int(t[1]), int(t[2]), int(t[3])
    if t[0] == 'P':
        v = (1 << a) + b
    else:
        pl = []
        for i in range(a):
            pl.append({0: 0xFFFF, 1: 0x8000 if i == a - 1 else 0, 2: 0x5555 if i & 1 else 0xAAAA,
                       3: 0 if i & 2 else 0xFFFF}[b])
        if pl[-1] == 0:
            pl[-1] = 1
        v = sum(p << (16 * i) for i, p in enumerate(pl))
    return -v if s else v


def values(K):
    d = []
    for s in range(2):
        for k in range(K + 1):
            for dd in range(-2, 3):
                d.append('P %d %d %d' % (s, k, dd))
    if K >= 200:
        for s in range(2):
            for k in (255, 256, 257, 511, 512, 513, 1023, 1024, 1025, 2047, 2048, 4000):
                for dd in (-1, 0, 1):
                    d.append('P %d %d %d' % (s, k, dd))
    for s in range(2):
        for n in range(1, 11):
            for p in range(4):
                d.append('D %d %d %d' % (s, n, p))
    return d, [val(x) for x in d]


def hx(s):
    return int(s, 16)


def tdiv(a, b):
    q = abs(a) // abs(b)
    if (a < 0) != (b < 0):
        q = -q
    return q, a - q * b


def popen(cmd, stdin=None):
    return subprocess.Popen(cmd, stdin=stdin, stdout=subprocess.PIPE, stderr=subprocess.STDOUT, text=True, bufsize=1 << 20)


def work(job):
    """returns (evaluations, distinct set (small ints), mismatches[list of str], ended_ok)"""
    h, mode, K, shard, n = job
    desc, V = values(K)
    bad = []
    ev = 0
    dist = set()
    ended = False

    def mis(what, *a):
        if len(bad) < 20:
            bad.append(what + ' ' + ' '.join(str(x) for x in a))
        else:
            bad.append('')

    if mode == 'pairs':
        p = popen([h, 'pairs', str(K), str(shard), str(n)])
        for line in p.stdout:
            t = line.split()
            if not t:
                continue
            if t[0] == 'END':
                ended = True
                break
            if t[0] == 'CRASH' or not t[0].isdigit():
                mis('crash', line.strip())
                continue
            i, j = int(t[0]), int(t[1])
            a, b = V[i], V[j]
            g = math.gcd(a, b)
            exp = [a + b, a - b, a * b]
            if b != 0:
                q, r = tdiv(a, b)
                exp += [q, r, None, q, None]
            else:
                exp += ['-'] * 5
            exp += [g, g]
            for k, e in enumerate(exp):
                got = t[2 + k]
                if e is None:
                    # modulus: congruent to a modulo b and smaller than |b|   (bintMod, fiBIntRem)
                    gv = hx(got)
                    if (gv - a) % abs(b) != 0 or abs(gv) >= abs(b):
                        mis('op%d' % k, desc[i], '|', desc[j], 'got', got)
                elif e == '-':
                    pass
                elif hx(got) != e:
                    mis(['plus', 'minus', 'times', 'quo', 'rem', 'mod', 'fiQuo', 'fiRem', 'gcd', 'fiGcd'][k], desc[i], '|', desc[j], 'got', got, 'want', '%x' % e)
            if [int(x) for x in t[12:15]] != [int(a < b), int(a == b), int(a > b)]:
                mis('compare', desc[i], '|', desc[j], t[12:15])
            ev += 13
            dist.add(hash((a + b, a * b)) & 0xffff)
        p.wait()
    elif mode == 'shifts':
        p = popen([h, 'shifts', str(K), str(shard), str(n)])
        for line in p.stdout:
            t = line.split()
            if not t:
                continue
            if t[0] == 'END':
                ended = True
                break
            if not t[0].isdigit():
                mis('crash', line.strip())
                continue
            i, s = int(t[0]), int(t[1])
            a = V[i]
            if hx(t[2]) != a << s:
                mis('shiftUp', desc[i], s, t[2])
            dn = hx(t[3])
            trunc = -((-a) >> s) if a < 0 else a >> s
            if dn != trunc and dn != (a >> s):
                mis('shiftDn', desc[i], s, t[3])
            bit = int(t[5])
            if bit != ((abs(a) >> s) & 1) and not (a < 0 and bit == ((a >> s) & 1)):
                mis('bit', desc[i], s, bit)
            ev += 3
            dist.add(hash((a << s, dn)) & 0xffff)
        p.wait()
    elif mode == 'wrap':
        import struct
        p = popen([h, 'wrap', str(K), str(shard), str(n)])
        for line in p.stdout:
            t = line.split()
            if not t:
                continue
            if t[0] == 'END':
                ended = True
                break
            if t[0] == 'U':
                i = int(t[1]); a = V[i]
                length, single, isz, isn, isp, neg, frp, ul, df, dec = t[2:12]
                if int(length) != abs(a).bit_length() and not (a == 0 and int(length) == 1):
                    mis('fiLength', desc[i], length)
                if int(single) != int(abs(a) < (1 << 63)) and a != -(1 << 63):
                    mis('fiIsSingle', desc[i], single)
                if [int(isz), int(isn), int(isp)] != [int(a == 0), int(a < 0), int(a > 0)]:
                    mis('fiSign', desc[i], isz, isn, isp)
                if hx(neg) != -a:
                    mis('fiNegate', desc[i], neg)
                if frp != '-' and hx(frp) != a:
                    mis('fiFrPlacev', desc[i], frp)
                if ul != '-' and hx(ul) != a:
                    mis('toULong', desc[i], ul)
                if df != '-':
                    try:
                        want = struct.unpack('<Q', struct.pack('<d', float(a)))[0]
                    except OverflowError:
                        want = 0x7ff0000000000000 | ((1 << 63) if a < 0 else 0)
                    if hx(df) != want:
                        mis('fiToDFlo', desc[i], df, '%x' % want)
                if int(dec) != a:
                    mis('fiToString', desc[i], dec[:60])
                ev += 9
                continue
            if not t[0].isdigit():
                mis('crash', line.strip())
                continue
            i, j = int(t[0]), int(t[1])
            a, b, c = V[i], V[j], V[(3 * i + 5 * j + 1) % len(V)]
            exp = [a + b, a - b, a * b, a * b + c]
            if b != 0:
                exp += list(tdiv(a, b))
            else:
                exp += ['-', '-']
            for k, e in enumerate(exp):
                got = t[2 + k]
                if e == '-':
                    if got != '-':
                        mis('fiDivide-by-zero', desc[i], got)
                elif got == '-' or hx(got) != e:
                    mis(['fiPlus', 'fiMinus', 'fiTimes', 'fiTimesPlus', 'fiDivide.q', 'fiDivide.r'][k], desc[i], '|', desc[j], 'got', got, 'want', '%x' % e)
            if [int(x) for x in t[8:12]] != [int(a == b), int(a != b), int(a < b), int(a <= b)]:
                mis('fiCompare', desc[i], '|', desc[j], t[8:12])
            ev += 10
            dist.add(hash((a * b + c, a - b)) & 0xffff)
        p.wait()
    elif mode == 'wshift':
        p = popen([h, 'wshift', str(K), str(shard), str(n)])
        for line in p.stdout:
            t = line.split()
            if not t:
                continue
            if t[0] == 'END':
                ended = True
                break
            if not t[0].isdigit():
                mis('crash', line.strip())
                continue
            i, s = int(t[0]), int(t[1])
            a = V[i]
            if hx(t[2]) != a << s:
                mis('fiShiftUp', desc[i], s, t[2])
            dn = hx(t[3])
            trunc = -((-a) >> s) if a < 0 else a >> s
            if dn != trunc and dn != (a >> s):
                mis('fiShiftDn', desc[i], s, t[3])
            bit = int(t[4])
            if bit != ((abs(a) >> s) & 1) and not (a < 0 and bit == ((a >> s) & 1)):
                mis('fiBit', desc[i], s, bit)
            ev += 3
            dist.add(hash((a << s, dn)) & 0xffff)
        p.wait()
    elif mode == 'power':
        p = popen([h, 'power', str(K), str(shard), str(n)])
        for line in p.stdout:
            t = line.split()
            if not t:
                continue
            if t[0] == 'END':
                ended = True
                break
            if not t[0].isdigit():
                mis('crash', line.strip())
                continue
            i, e = int(t[0]), int(t[1])
            if hx(t[2]) != V[i] ** e:
                mis('SIPower', desc[i], e, t[2])
            if hx(t[3]) != V[i] ** e:
                mis('BIPower', desc[i], e, t[3])
            ev += 2
            dist.add(hash(V[i] ** e) & 0xffff)
        p.wait()
    elif mode == 'powmod':
        # bases: small values; exponents: non-negative values up to 2^70; moduli: every non-zero value
        bases = [i for i, v in enumerate(V) if abs(v) < (1 << 34) and desc[i][0] == 'P' and int(desc[i].split()[2]) in (0, 1, 2, 5, 31, 32, 33)]
        exps = [i for i, v in enumerate(V) if 0 <= v < (1 << 70) and desc[i][0] == 'P' and int(desc[i].split()[2]) in (0, 1, 2, 3, 6, 31, 32, 63, 64, 69) and int(desc[i].split()[3]) in (-1, 0, 1)]
        mods = [i for i, v in enumerate(V) if v != 0]
        triples = [(a, e, m) for a in bases for e in exps for m in mods]
        triples = triples[shard::n]
        p = subprocess.Popen([h, 'powmod', str(K)], stdin=subprocess.PIPE, stdout=subprocess.PIPE, stderr=subprocess.STDOUT, text=True, bufsize=1 << 20)
        import threading

        def feed():
            try:
                for a, e, m in triples:
                    p.stdin.write('%d %d %d\n' % (a, e, m))
                p.stdin.close()
            except BrokenPipeError:
                pass
        th = threading.Thread(target=feed)
        th.start()
        for line in p.stdout:
            t = line.split()
            if not t:
                continue
            if t[0] == 'END':
                ended = True
                break
            if not t[0].isdigit():
                mis('crash', line.strip())
                continue
            a, e, m = V[int(t[0])], V[int(t[1])], V[int(t[2])]
            got = hx(t[3])
            want = pow(a, e, abs(m))
            if (got - want) % abs(m) != 0 or abs(got) >= abs(m):
                mis('powmod', desc[int(t[0])], '^', desc[int(t[1])], 'mod', desc[int(t[2])], 'got', t[3], 'want', '%x' % want)
            ev += 1
            dist.add(hash(want) & 0xffff)
        th.join()
        p.wait()
    elif mode == 'vals':
        p = popen([h, 'vals', str(K)])
        for line in p.stdout:
            t = line.split()
            if not t:
                continue
            if t[0] == 'END':
                ended = True
                break
            if t[0] == 'V':
                i = int(t[1])
                a = V[i]
                d = ' '.join(t[2:6])
                if d != desc[i]:
                    mis('recipe-mismatch', d, desc[i])
                    continue
                dec, hexs, length, isz, isn, isp, issm, small, tosint, cp, neg, ab, frs, ssz = t[6:20]
                if dec != str(a):
                    mis('toString', desc[i], dec)
                if hx(hexs) != a:
                    mis('construct/places', desc[i], hexs)
                if int(length) != abs(a).bit_length() and not (a == 0 and int(length) == 1):
                    mis('length', desc[i], length)
                if [int(isz), int(isn), int(isp)] != [int(a == 0), int(a < 0), int(a > 0)]:
                    mis('sign-predicates', desc[i])
                if int(issm) and int(small) != a:
                    mis('small', desc[i], small)
                if not int(issm) and -(1 << 28) < a < (1 << 28):
                    mis('isSmall-false-for-small', desc[i])
                if -(1 << 63) < a < (1 << 63) and int(tosint) != a:
                    mis('toSInt', desc[i], tosint)
                if hx(cp) != a or hx(neg) != -a or hx(ab) != abs(a) or hx(frs) != a:
                    mis('copy/negate/abs/frString', desc[i], cp, neg, ab, frs)
                if int(ssz) < len(str(a)) + 1:
                    mis('stringSize-too-small', desc[i], ssz)
                ev += 12
                dist.add(hash(a) & 0xffff)
            elif t[0] == 'L':
                v = int(t[1])
                if hx(t[2]) != v or hx(t[3]) != v or int(t[4]) != v or t[5] != str(v):
                    mis('machine-int', v, t[2:])
                ev += 4
            else:
                mis('crash', line.strip())
        p.wait()
    elif mode == 'scan':
        digs = '0123456789ABCDEFGHIJKLMNOPQRSTUVWXYZ'

        def torad(v, r):
            v = abs(v)
            if v == 0:
                return '0'
            o = []
            while v:
                o.append(digs[v % r])
                v //= r
            return ''.join(reversed(o))
        items = []
        for i in range(shard, len(V), n):
            a = V[i]
            sg = '-' if a < 0 else ''
            items.append((sg + str(abs(a)), a, len(sg + str(abs(a))), a))
            for r in range(2, 37):
                s = sg + '%dr%s' % (r, torad(a, r))
                items.append((s, a, len(s), None))
        items.append(('+17', 17, 3, None))
        items.append(('  42', 42, 4, None))
        items.append(('000123', 123, 6, 123))
        items.append(('12x', 12, 2, 12))
        p = subprocess.Popen([h, 'scan', str(K)], stdin=subprocess.PIPE, stdout=subprocess.PIPE, stderr=subprocess.STDOUT, text=True, bufsize=1 << 20)
        import threading

        def feed():
            try:
                for s, _, _, _ in items:
                    p.stdin.write(s + '\n')
                p.stdin.close()
            except BrokenPipeError:
                pass
        th = threading.Thread(target=feed)
        th.start()
        k = 0
        for line in p.stdout:
            t = line.split()
            if not t:
                continue
            if t[0] == 'END':
                ended = True
                break
            if t[0] != 'S':
                mis('crash', line.strip())
                continue
            s, want, wend, dwant = items[k]
            k += 1
            if hx(t[1]) != want or int(t[2]) != wend:
                mis('radixScan', s, 'got', t[1], t[2])
            if dwant is not None and (hx(t[3]) != dwant):
                mis('decimalScan', s, 'got', t[3], t[4])
            ev += 1
            dist.add(hash(s) & 0xffff)
        th.join()
        p.wait()
    elif mode == 'dword':
        p = popen([h, 'dword', '1'])
        for line in p.stdout:
            t = line.split()
            if not t:
                continue
            if t[0] == 'END':
                ended = True
                break
            try:
                x = [int(v, 16) for v in t[1:]]
            except ValueError:
                mis('crash', line.strip())
                continue
            if t[0] == 'T':
                pr = x[0] * x[1]
                if (x[2], x[3]) != (pr >> 64, pr & M64):
                    mis('xxTimesDouble', line.strip())
            elif t[0] == 'D':
                nn = (x[0] << 64) | x[1]
                q, r = divmod(nn, x[2])
                if (x[3], x[4], x[5]) != ((q >> 64) & M64, q & M64, r) or x[6] != r:
                    mis('xxDivideDouble/xxModDouble', line.strip())
            elif t[0] == 'P':
                sm = x[0] + x[1] + x[2]
                if (x[3], x[4]) != (sm >> 64, sm & M64):
                    mis('xxPlusStep', line.strip())
            elif t[0] == 'G':
                if x[4] != int((x[0], x[1]) > (x[2], x[3])):
                    mis('xxTestGtDouble', line.strip())
            elif t[0] == 'M':
                sm = x[0] * x[1] + x[2] + x[3]
                if (x[4], x[5]) != (sm >> 64, sm & M64):
                    mis('xxTimesStep', line.strip())
            ev += 1
            dist.add(hash(tuple(x[-2:])) & 0xffff)
        p.wait()
    return mode, ev, dist, bad, ended, p.returncode


def main(tier):
    ck = Check(PID, 'exploration', tier)
    b = ck.build('aldor')
    try:
        h = cmodel.harness(b, 'c11')
    except Exception as e:
        ck.build_failed = str(e)
        print('BUILD FAILED (no property verdict):', e)
        ck.finish()
    K = KQ if tier == 'quick' else KT
    jobs = [(h, 'vals', K, 0, 1), (h, 'dword', K, 0, 1)]
    for mode in ('pairs', 'wrap', 'shifts', 'wshift', 'power', 'scan', 'powmod'):
        ns = NCPU * (4 if mode in ('pairs', 'wrap') else 1)
        for s in range(ns):
            jobs.append((h, mode, K, s, ns))
    jobs.sort(key=lambda j: 0 if j[1] in ('pairs', 'wrap') else 1)
    dist = set()
    per = {}
    with mp.Pool(NCPU) as pool:
        for mode, ev, d, bad, ended, rc in pool.imap_unordered(work, jobs):
            ck.count(ev)
            per[mode] = per.get(mode, 0) + ev
            dist |= {(mode, x) for x in d}
            if not ended or rc != 0:
                bad = list(bad) + ['harness did not finish (exit %s)' % rc]
            if bad:
                kinds = sorted(set(x.split()[0] for x in bad if x))
                key = 'op=%s' % '+'.join(kinds[:4])
                ck.report(key, '%d mismatches in mode %s (K=%d); first:\n%s' % (len(bad), mode, K, '\n'.join(x for x in bad[:20] if x)),
                          files={'mismatches.txt': '\n'.join(x for x in bad if x) + '\n'},
                          cmds=['# the recipes name the operands: P s k d = (-1)^s (2^k+d); D s n p = digit pattern p over n 16-bit places',
                                '%s/bin/vcheck harness c11 %s %d 0 1 | head -50' % (VERIF, mode, K)])
    desc, V = values(K)
    ck.distinct = set(dist)
    ck.cov.update({
        'rule': 'complete product V x V (V = +-(2^k+d), k<=%d, d in -2..2, plus digit patterns over 1..10 16-bit places: %d values) for '
                '+ - * divide mod gcd compare; V x shift counts; small bases x exponents; base x exponent x every modulus for powermod; '
                'the foam_i.c runtime wrappers (Plus Minus Times TimesPlus Divide EQ NE LT LE over V x V; Length IsSingle FrPlacev ToDFlo ToString per value; ShiftUp ShiftDn Bit for counts 0..130 and on to 400); ' 
                'decimal and radix 2..36 strings of every value; all word tuples from a 20-value boundary set for the double-word primitives. '
                'distinct = distinct result values (16-bit hash classes per mode)' % (K, len(V)),
        'values': len(V), 'per_mode_evaluations': per,
        'samples': ['P 1 63 -1 | P 0 32 1  (= -(2^63-1) op (2^32+1)): plus minus times quo rem mod gcd lt eq gt',
                    'D 0 5 2 (alternating digits over five 16-bit places) scanned from "36r..." text',
                    'powmod(P 0 5 1, P 0 64 1, D 1 3 0)'],
    })
    ck.assumptions += ['Python int arithmetic is the oracle', 'modulus sign convention is not fixed by the property: result must be congruent and smaller than |b|',
                       'right shift of a negative value may truncate or floor; bit test of a negative value may use magnitude or two\'s complement',
                       'bintShiftRem is outside the listed operations and is not judged']
    ck.finish()


if __name__ == '__main__':
    main(sys.argv[1] if len(sys.argv) > 1 else 'quick')
