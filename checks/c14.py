"""C14 — parsing does not depend on layout.
Braced programs: canonical rendering R0 = tokens separated by one blank; every rendering with one (quick) or two
(thorough, small programs) layout deviations at inter-token gaps, and the renderings where every gap uses the same
deviation.  Piled programs: indentation widths 1..8, tabs, blank / comment lines at every line boundary at several
indentations, trailing blanks and comments.  Oracle: the parse tree written by -Fap is byte-identical to that of R0
(piled vs braced twin: identical after the explicit block structure is matched)."""
import os, re, sys, itertools
from vlib.common import Check, run, pmap, VERIF, NCPU
from vlib import families, progspace
from vlib.runners import mkdir, write

PID = 'C14'
TOK = re.compile(r'"(?:_.|[^"\n])*"|[A-Za-z%][A-Za-z0-9_?!]*|\d+|:=|==>|==|=>|\+->|->|\.\.|<<|>=|<=|~=|\S', re.S)
DEVS = [('2sp', '  '), ('tab', '\t'), ('nl', '\n'), ('nl-indent', '\n      '), ('comment', ' -- c\n'), ('blank', '\n\n'), ('sp-nl-sp', ' \n '), ('escaped-nl', ' _\n')]

PILE_PROGS = [
    [(0, 'f(n: MachineInteger): MachineInteger =='), (1, 'n < 2 => 1'), (1, 'n * f(n-1)'),
     (0, 'g(l: List MachineInteger): MachineInteger =='), (1, 's: MachineInteger := 0'), (1, 'for x in l repeat'), (2, 'if x > 2 then'), (3, 's := s + x'),
     (2, 'else'), (3, 's := s - 1'), (1, 's'),
     (0, 'VD(T: Type): with'), (1, 'mk: T -> %'), (1, 'get: % -> T'), (0, '== add'), (1, 'Rep == Record(t: T)'), (1, 'import from Rep'),
     (1, 'mk(t: T): % == per [t]'), (1, 'get(d: %): T == rep(d).t'),
     (0, 'stdout << f 5 << " " << g [1,2,3] << newline')],
    [(0, 'h(a: MachineInteger, b: MachineInteger): MachineInteger =='), (1, 'r: MachineInteger := 0'), (1, 'while a > 0 repeat'), (2, 'a := a - 1'),
     (2, 'b = a => iterate'), (2, 'for k in 1..b repeat'), (3, 'k > 3 => break'), (3, 'r := r + k'), (1, 'try'), (2, 'r := r + q(a)'), (1, 'catch E in'),
     (2, 'E has X => r := 0'), (2, 'never'), (1, 'r')],
    [(0, 'define VC: Category == with'), (1, 'f: % -> %'), (1, 'g: (%, %) -> Boolean'), (1, 'default'), (2, 'g(a: %, b: %): Boolean =='), (3, 'a = b => true'), (3, 'false'),
     (0, 'k(n: MachineInteger): MachineInteger =='), (1, 'local t: MachineInteger := n'), (1, 'for i in 1..n for j in 2..n repeat'), (2, 't := t + i * j'),
     (2, 'if t > 100 then'), (3, 'break'), (1, 'select n in'), (2, '1 => t'), (2, '2 => t + 1'), (2, 't + 2')],    # one-line piles: a block keyword followed by exactly one deeper line (the lineariser decides per keyword whether such a
    # line is still bracketed), in every nesting where the bracket decides which `if` an outdented `else` belongs to
    [(0, 'd1(a: Boolean, b: Boolean): MachineInteger =='), (1, 'r: MachineInteger := 0'), (1, 'if a then'), (2, 'if b then'), (3, 'r := 1'),
     (1, 'else'), (2, 'r := 2'), (1, 'r'),
     (0, 'd2(a: Boolean, b: Boolean): MachineInteger =='), (1, 'r: MachineInteger := 0'), (1, 'if a then'), (2, 'if b then r := 1'),
     (1, 'else'), (2, 'r := 2'), (1, 'r'),
     (0, 'd3(a: Boolean, b: Boolean): MachineInteger =='), (1, 'r: MachineInteger := 0'), (1, 'if a then'), (2, 'if b then'), (3, 'r := 1'),
     (2, 'else'), (3, 'r := 3'), (1, 'else'), (2, 'if b then r := 4'), (1, 'r'),
     (0, 'd4(a: Boolean, b: Boolean): MachineInteger =='), (1, 'r: MachineInteger := 0'), (1, 'for i in 1..3 repeat'), (2, 'if a then'),
     (3, 'if b then r := r + i'), (2, 'else'), (3, 'for j in 1..2 repeat'), (4, 'if b then r := r - j'), (1, 'r'),
     (0, 'd5(a: Boolean, b: Boolean): MachineInteger =='), (1, 'r: MachineInteger := 0'), (1, 'try'), (2, 'if a then r := q(1)'), (1, 'catch E in'),
     (2, 'E has X => r := 5'), (2, 'never'), (1, 'finally'), (2, 'if a then r := r + 1'), (1, 'r'),
     (0, 'd6(a: Boolean): MachineInteger =='), (1, 'if a then'), (2, 'if not a then 1 else 2'), (1, 'else'), (2, '3')],
]


def braced_sources(tier):
    cs = families.all_cases('quick', ['F3', 'F5', 'F7', 'F9', 'F8', 'F4', 'F10'])
    byfam = {}
    for f, c in cs:
        byfam.setdefault(f, []).append(c)
    picks = []
    for f in ('F3', 'F5', 'F7', 'F9', 'F8', 'F4', 'F10'):
        lst = byfam[f]
        picks.append(lst[len(lst) // 2])
        if tier == 'thorough':
            picks.append(lst[0])
            picks.append(lst[-1])
    return [progspace.render_case(i, c) for i, c in enumerate(picks)]


JOIN = ('else', '==', 'catch', 'finally', 'then', 'always')


def braced_twin(prog):
    """the brace-and-semicolon program with the same explicit block structure as the piled one (#pile wraps the file in
    one more sequence, which the outer braces reproduce)"""
    def parse(i, depth):
        items = []
        while i < len(prog) and prog[i][0] >= depth:
            d, t = prog[i]
            if d > depth:
                kids, i = parse(i, d)
                items[-1][1].extend(kids)
            else:
                items.append([t, []])
                i += 1
        return items, i

    def rend(items):
        out = ''
        for k, (t, kids) in enumerate(items):
            st = t + (' { ' + rend(kids) + ' }' if kids else '')
            if k > 0:
                out += ' ' if t.split()[0] in JOIN else '; '
            out += st
        return out
    return '{ ' + rend(parse(0, 0)[0]) + ' }\n'


def spaces_outside_strings(t):
    pos, inq = [], False
    for i, ch in enumerate(t):
        if ch == '"':
            inq = not inq
        elif ch == ' ' and not inq and i > 0 and t[i - 1] != ' ':
            pos.append(i)
    return pos


def render_pile(prog, width=4, tab=False, ins=None):
    out = ['#pile']
    for i, (d, t) in enumerate(prog):
        if ins and ins[0] == 'before' and ins[1] == i:
            out.append(ins[2])
        if ins and ins[0] == 'esc' and ins[1] == i:
            # escaped line break at one blank of the line: `_`, optional trailing blanks, newline, optional blank lines, and a
            # continuation line at a chosen indentation; all of it is layout
            _, _, at, cont, nblank, trail = ins
            t = t[:at] + ' _' + trail + '\n' + '\n' * nblank + ' ' * max(0, width * d + cont) + t[at + 1:]
        line = (('\t' * d) if tab else (' ' * (width * d))) + t
        if ins and ins[0] == 'mixtab' and ins[1] == i:
            # width 8: one of the d eight-column groups of this line's indentation is written as k blanks and a tab
            _, _, k, g = ins
            line = ''.join((' ' * k + '\t') if j == g else ' ' * 8 for j in range(d)) + t
        if ins and ins[0] == 'trail' and ins[1] == i:
            line += ins[2]
        out.append(line)
    return '\n'.join(out) + '\n'


def main(tier):
    ck = Check(PID, 'exploration', tier)
    b = ck.build('aldor')
    base = b.base()
    jobs = []       # (group, label, text)
    srcs = braced_sources(tier)
    for si, src in enumerate(srcs):
        toks = TOK.findall(src)
        g = 'braced%d' % si
        jobs.append((g, 'R0', ' '.join(toks) + '\n'))
        jobs.append((g, 'original', src))
        for name, d in DEVS:
            jobs.append((g, 'all-' + name, d.join(toks) + '\n'))
            for i in range(len(toks) - 1):
                jobs.append((g, '%s@%d' % (name, i), ' '.join(toks[:i + 1]) + d + ' '.join(toks[i + 1:]) + '\n'))
        if tier == 'thorough' and len(toks) < 140:
            for (n1, d1), (n2, d2) in itertools.product(DEVS[:4], repeat=2):
                for i, j in itertools.combinations(range(len(toks) - 1), 2):
                    parts = []
                    for k, t in enumerate(toks):
                        parts.append(t)
                        if k < len(toks) - 1:
                            parts.append(d1 if k == i else d2 if k == j else ' ')
                    jobs.append((g, '%s@%d+%s@%d' % (n1, i, n2, j), ''.join(parts) + '\n'))
    for pi, prog in enumerate(PILE_PROGS):
        g = 'pile%d' % pi
        jobs.append((g, 'R0', render_pile(prog)))
        for w in range(1, 9):
            jobs.append((g, 'width%d' % w, render_pile(prog, w)))
        jobs.append((g, 'tabs', render_pile(prog, tab=True)))
        jobs.append((g, 'braced-twin', braced_twin(prog)))
        tw = TOK.findall(braced_twin(prog))
        for name, d in DEVS[:5]:
            jobs.append((g, 'braced-twin-all-' + name, d.join(tw) + '\n'))
        for i in range(len(prog)):
            d = prog[i][0]
            for name, txt in [('blank', ''), ('blanksp', '      '), ('com0', '-- c'), ('comind', ' ' * (4 * d) + '-- c'), ('comdeep', ' ' * (4 * d + 6) + '-- c'),
                              ('comshallow', ' ' * (max(0, 4 * d - 3)) + '-- c')]:
                jobs.append((g, '%s@%d' % (name, i), render_pile(prog, ins=('before', i, txt))))
            for name, txt in [('trailsp', '   '), ('trailtab', '\t'), ('trailcom', '  -- c')]:
                jobs.append((g, '%s@%d' % (name, i), render_pile(prog, ins=('trail', i, txt))))
            # tab stops: with an indentation unit of 8, each eight-column group written as k blanks + tab, k = 0..7
            gname = g
            for tg in range(prog[i][0]):
                for k in range(8):
                    jobs.append((gname, 'mixtab%d.%d@%d' % (k, tg, i), render_pile(prog, 8, ins=('mixtab', i, k, tg))))
            # escaped line breaks inside the line: every blank (quick: first and last) x continuation indentation
            # {deeper, same, shallower} x following blank lines {0, 1, 2} x blanks after the underscore
            sp = spaces_outside_strings(prog[i][1])
            if tier == 'quick' and len(sp) > 2:
                sp = [sp[0], sp[-1]]
            for at in sp:
                for cname, cont in (('deeper', 6), ('same', 0), ('shallower', -2)):
                    for nblank in (0, 1, 2):
                        for tname, trail in (('', ''), ('sp', '  ')):
                            if tier == 'quick' and tname and nblank == 2:
                                continue
                            jobs.append((g, 'esc-%s-b%d%s@%d.%d' % (cname, nblank, tname, i, at), render_pile(prog, ins=('esc', i, at, cont, nblank, trail))))
    # braced twin of pile0's first function: same explicit block structure
    chunks = [jobs[i::NCPU * 2] for i in range(NCPU * 2)]

    def work(ci):
        d = mkdir('%s/w%d' % (ck.work, ci))
        out = []
        for g, lab, text in chunks[ci]:
            if ck.expired():
                return out, False
            write(d + '/m.as', text)
            if os.path.exists(d + '/m.ap'):
                os.remove(d + '/m.ap')
            r = run(base + ['-Fap', 'm.as'], cwd=d, timeout=30, merge=True, norand=False)
            ap = open(d + '/m.ap', 'rb').read() if os.path.exists(d + '/m.ap') else None
            out.append((g, lab, ap, r.rc, r.text()[-300:]))
        return out, True

    res = {}
    for out, done in pmap(work, range(len(chunks)), n=NCPU):
        if not done:
            ck.cut('rendering chunk not finished')
        for g, lab, ap, rc, tail in out:
            res[(g, lab)] = (ap, rc, tail)
            ck.count()
    texts = {(g, lab): text for g, lab, text in jobs}
    for (g, lab), (ap, rc, tail) in sorted(res.items()):
        ref = res.get((g, 'R0'))
        if ref is None or ref[0] is None:
            if lab == 'R0':
                ck.report('reference-rendering-rejected=%s' % g, tail, files={'m.as': texts[(g, lab)]})
            continue
        if lab == 'R0':
            continue
        if ap == ref[0]:
            ck.nontrivial((g, lab))
        else:
            ck.report('source=%s,deviation=%s' % (g, lab.split('@')[0] if '+' not in lab else 'pair'),
                      '%s rendering %s: parse tree differs from the canonical rendering (exit %s) %s' % (g, lab, rc, tail),
                      files={'m.as': texts[(g, lab)], 'R0.as': texts[(g, 'R0')]},
                      cmds=[' '.join(base + ['-Fap=dev.ap', 'm.as']), ' '.join(base + ['-Fap=ref.ap', 'R0.as']), 'cmp dev.ap ref.ap'])
    ck.cov.update({
        'rule': '%d braced sources x (every single inter-token gap x %d deviations + uniform renderings%s) and %d piled sources x (widths 1-8, tabs, 6 kinds of inserted line before and '
                '3 kinds of trailing text at every line, every eight-column indentation group written as k blanks and a tab (k = 0..7), escaped line breaks at the blanks of every line x continuation indentation x following blank lines); -Fap output must be byte-identical to the canonical rendering; distinct = renderings that parsed identically'
                % (len(srcs), len(DEVS), ' + all pairs of gaps for 4 deviations' if tier == 'thorough' else '', len(PILE_PROGS)),
        'renderings': len(jobs),
        'samples': [texts[jobs[3][0], jobs[3][1]][:200], render_pile(PILE_PROGS[1], 2)[:200]],
    })
    ck.assumptions += ['deviations only add layout (blanks, tabs, newlines, -- comments); ++ documentation comments are part of the tree and are not used']
    ck.finish()


if __name__ == '__main__':
    main(sys.argv[1] if len(sys.argv) > 1 else 'quick')
