"""C18 — a successful exit means every requested output was written.
For every output kind and every subset of {ao, fm, c}: the n-th write to the output file fails (every n up to the number
of writes of a clean run, once and persistently), close fails, open fails, the target is a directory / in a missing
directory.  Faults are injected at system-call level with strace.  Oracle: exit 0 implies every requested file exists
and equals the clean run's file; an injected failure implies a non-zero exit and an error line."""
import os, re, sys, shutil, itertools
from vlib.common import Check, run, pmap, VERIF, NCPU
from vlib import faults
from vlib.runners import TC, mkdir, write

PID = 'C18'
SRC = '''#include "aldor"
#include "aldorio"
import from MachineInteger, String;
f(n: MachineInteger): MachineInteger == if n < 2 then 1 else n * f(n - 1);
g(s: String): String == s;
stdout << f 10 << newline;
stdout << g "%s" << newline;
'''
KINDS = {  # option -> produced file
    'ai': 'u.ai', 'ap': 'u.ap', 'asy': 'u.asy', 'ao': 'u.ao', 'fm': 'u.fm', 'lsp': 'u.lsp', 'c': 'u.c', 'java': 'aldorcode/u.java', 'main': 'u-aldormain.c',
}


def main(tier):
    ck = Check(PID, 'fault_enumeration', tier)
    b = ck.build('aldor', 'foam', 'libaldor')
    tc = TC(b)
    base = tc.b.base() + tc.flags
    texts = [SRC % 'x', SRC % ('y' * 9000)] if tier == 'thorough' else [SRC % ('y' * 9000)]
    plan = []
    ref = {}
    for ti, text in enumerate(texts):
        # clean runs: per kind, count the writes to the output file
        for k, fname in KINDS.items():
            d = mkdir('%s/ref-%d-%s' % (ck.work, ti, k))
            write(d + '/u.as', text)
            opts = ['-F' + k] + (['-Fc'] if k == 'main' else [])
            r = run(['strace', '-f', '-o', d + '/trace', '-e', 'trace=write,openat,close', '-P', d + '/' + fname] + base + opts + ['u.as'], cwd=d, timeout=120, merge=True)
            if r.rc != 0 or not os.path.exists(d + '/' + fname):
                ck.report('reference-run-failed=%s' % k, 'clean -F%s: rc=%s %s' % (k, r.rc, r.text()[-400:]))
                continue
            tr = open(d + '/trace').read()
            nw = len(re.findall(r'\bwrite\(', tr))
            ref[(ti, k)] = (open(d + '/' + fname, 'rb').read(), nw)
            for n in range(1, nw + 1):
                plan.append((ti, (k,), k, 'write', n, False))
                plan.append((ti, (k,), k, 'write', n, True))
            plan.append((ti, (k,), k, 'close', 1, False))
            plan.append((ti, (k,), k, 'openat', 1, False))
            plan.append((ti, (k,), k, 'isdir', 0, False))
            plan.append((ti, (k,), k, 'nodir', 0, False))
        # subsets of {ao, fm, c}: fail each member in turn
        for sz in (2, 3):
            for sub in itertools.combinations(('ao', 'fm', 'c'), sz):
                for victim in sub:
                    if (ti, victim) in ref:
                        plan.append((ti, sub, victim, 'write', 1, True))
                        plan.append((ti, sub, victim, 'close', 1, False))
    # split C output (-Csmax): a header and numbered parts; every produced file is a victim in turn
    for ti, text in enumerate(texts):
        d = mkdir('%s/ref-%d-split' % (ck.work, ti))
        write(d + '/u.as', text)
        r = run(base + ['-Fc', '-Csmax=5', 'u.as'], cwd=d, timeout=120, merge=True)
        parts = sorted(f for f in os.listdir(d) if f.endswith(('.c', '.h')))
        if r.rc != 0 or len(parts) < 3:
            ck.report('reference-run-failed=split', r.text()[-400:])
            continue
        for f in parts:
            KINDS['split:' + f] = f
            ref[(ti, 'split:' + f)] = (open(d + '/' + f, 'rb').read(), 1)
            plan.append((ti, ('split:' + f,), 'split:' + f, 'write', 1, True))
            plan.append((ti, ('split:' + f,), 'split:' + f, 'write', 1, False))
            plan.append((ti, ('split:' + f,), 'split:' + f, 'close', 1, False))
    if ck.violations:
        ck.finish()

    def one(j):
        idx, (ti, kinds, victim, fault, n, persist) = j
        if ck.expired():
            return j, None, None
        d = mkdir('%s/f%d' % (ck.work, idx))
        write(d + '/u.as', texts[ti])
        vpath = d + '/' + KINDS[victim]
        opts = []
        for k in kinds:
            if k.startswith('split:'):
                opts += ['-Fc', '-Csmax=5']
                continue
            opts.append('-F' + k)
            if k == 'main':
                opts.append('-Fc')
        cmd = base + opts + ['u.as']
        if fault == 'isdir':
            os.makedirs(vpath)
        elif fault == 'nodir':
            # the target's directory cannot exist: its name is taken by a regular file (a merely missing directory is created by the compiler)
            write(d + '/blocker', 'x')
            opts2 = [o if o != '-F' + victim else '-F%s=%s/blocker/%s' % (victim, d, os.path.basename(KINDS[victim])) for o in opts]
            cmd = base + opts2 + ['u.as']
        if fault in ('write', 'close', 'openat'):
            err = {'write': 'ENOSPC', 'close': 'EIO', 'openat': 'EACCES'}[fault]
            when = '%d%s' % (n, '+' if persist else '')
            if fault == 'openat':
                os.makedirs(os.path.dirname(vpath), exist_ok=True)
            cmd = ['strace', '-f', '-o', '/dev/null', '-P', vpath, '-e', 'trace=%s' % fault, '-e', 'inject=%s:error=%s:when=%s' % (fault, err, when)] + cmd
        r = run(cmd, cwd=d, timeout=120, merge=True)
        outs = {}
        for k in kinds:
            p = d + '/' + KINDS[k]
            outs[k] = open(p, 'rb').read() if os.path.isfile(p) else None
        shutil.rmtree(d, ignore_errors=True)
        return j, r, outs

    for j, r, outs in pmap(one, list(enumerate(plan))):
        idx, (ti, kinds, victim, fault, n, persist) = j
        if r is None:
            ck.cut('fault case not run')
            continue
        ck.count()
        cls, det = faults.classify(r)
        label = 'kinds=%s victim=%s fault=%s%s n=%d' % ('+'.join(kinds), victim, fault, '(persistent)' if persist else '', n)
        problem = None
        if cls != 'ok':
            problem = cls + ' ' + det
        elif r.rc == 0:
            wrong = [k for k in kinds if (ti, k) in ref and outs.get(k) != ref[(ti, k)][0]]
            if wrong:
                problem = 'exit 0 but %s %s' % (', '.join(wrong), 'missing or incomplete')
            else:
                # the injected failure did not matter (e.g. a retried short write): harmless
                ck.nontrivial((kinds, victim, fault, n, persist, 'complete'))
        else:
            if not (faults.error_printed(r.text()) or 'rror' in r.text()):
                problem = 'non-zero exit without an error line'
            else:
                ck.nontrivial((kinds, victim, fault, n, persist, 'reported'))
        if problem:
            ck.report('output=%s,fault=%s' % ('split-part' if victim.startswith('split:u0') else victim, fault), '%s: %s\n%s' % (label, problem, r.text()[-400:]),
                      files={'u.as': texts[ti], 'case.txt': label + '\n'},
                      cmds=['# ' + label, ' '.join(base + (['-Fc', '-Csmax=5'] if victim.startswith('split:') else ['-F' + k for k in kinds]) + ['u.as'])])
    ck.cov.update({
        'rule': 'output kinds %s and all subsets of {ao,fm,c} x faults on the output path: n-th write fails with ENOSPC for every n (once / persistently), close fails (EIO), '
                'open fails (EACCES), target is a directory, target directory cannot be created; non-trivial = fault cases that were reported (or proved harmless) correctly' % sorted(KINDS),
        'fault_cases': len(plan), 'writes_per_kind': {k: v[1] for (ti, k), v in ref.items() if ti == 0},
        'samples': ['-Fc with the 2nd write(2) to u.c failing with ENOSPC', '-Fao -Ffm -Fc with close(2) of u.fm failing with EIO'],
    })
    ck.assumptions += ['strace fault injection (-e inject=...) is a faithful model of a full device / failing medium']
    ck.finish()


if __name__ == '__main__':
    main(sys.argv[1] if len(sys.argv) > 1 else 'quick')
