"""C12 — the Java back end agrees with the other execution routes.
Cases of the program families restricted to the Java profile (machine integers within +-2^30 because the Java SInt is
32 bits wide; no try/catch, which the emitter reports as not implemented) x levels: the generated classes must compile
with javac against the rebuilt runtime jars and print what the interpreter prints, with the same exit class."""
import os, re, sys
from vlib.common import Check, pmap, VERIF
from vlib.runners import TC, mkdir, write
from vlib import families, progspace, progrun, diffeng

PID = 'C12'
LIMIT = 1 << 30


class JavaEval(progspace.Eval):
    def num(self, v):
        if self.it == 'MI' and not (-LIMIT < v < LIMIT):
            raise progspace.OutOfSubset('outside the 32-bit Java profile')
        return super().num(v)


def in_profile(case):
    if case[0] == 'RAW':
        t = case[1]
        return 'try' not in t and 'throw' not in t and not re.search(r'\d{10,}', t)
    r = repr(case)
    if "'try'" in r or "'throw'" in r:
        return False
    it, body = case
    ev = JavaEval(it, 'K0:')
    try:
        ev.run(body, progspace.Env())
    except progspace.ReturnEx:
        pass
    except Exception:
        return False
    # literals too must fit
    for m in re.finditer(r"\('lit', (-?\d+)\)", r):
        if it == 'MI' and abs(int(m.group(1))) >= LIMIT:
            return False
    return True


def bi_cases():
    """big-integer literals at every magnitude boundary of the emitter's constant forms (30, 31, 32, 63, 64 bits), both signs,
    alone and as operands of a folded sum; Integer is a BigInteger in Java, so these are inside the profile"""
    vals = sorted(set(s * ((1 << k) + d) for k in (7, 15, 28, 29, 30, 31, 32, 33, 62, 63, 64, 65) for d in (-1, 0, 1) for s in (1, -1)))
    out = []
    for i in range(0, len(vals), 12):
        chunk = vals[i:i + 12]
        body = ''.join('\tpIBI("K@K@:", %s);\n\tpIBI("K@K@:", %s + 1);\n' % (('(%d)' % v), ('(%d)' % v)) for v in chunk)
        lines = []
        for v in chunk:
            lines += [str(v), str(v + 1)]
        out.append(('JB', families.raw('c@K@(): () == {\n\timport from Integer;\n%s}\n' % body, lines)))
    return out


def small_arith_cases():
    """every arithmetic and comparison operator (and shifts) on every ordered pair of small machine integers of both signs,
    once on literals and once through parameters: the machine-integer builtins inside the 32-bit Java profile"""
    from vlib.families import B, L, P, PB, V, AOPS, COPS, chunks, in_subset
    lits = [0, 1, -1, 2, -2, 7, -7, 12, -18, 35, -14, 1 << 20, -(1 << 20)]
    helpers = [('fn', 'h%d' % i, [('p', 'I'), ('q', 'I')], 'I' if op in AOPS else 'Bool', [('value', B(op, V('p'), V('q')))]) for i, op in enumerate(AOPS + COPS)]
    helpers.append(('fn', 'hs', [('p', 'I'), ('q', 'I')], 'I', [('value', ('shift', V('p'), V('q')))]))
    stmts = []
    for i, op in enumerate(AOPS + COPS):
        pr = P if op in AOPS else PB
        for a in lits:
            for b in lits:
                for st in (pr(B(op, L(a), L(b))), pr(('call', 'h%d' % i, [L(a), L(b)]))):
                    if in_subset(('MI', helpers + [st])) and in_profile(('MI', helpers + [st])):
                        stmts.append(st)
    for a in lits:
        for n in (-20, -8, -1, 0, 1, 8):
            for st in (P(('shift', L(a), L(n))), P(('call', 'hs', [L(a), L(n)]))):
                if in_subset(('MI', helpers + [st])) and in_profile(('MI', helpers + [st])):
                    stmts.append(st)
    return [('J1', ('MI', list(helpers) + list(g))) for g in chunks(stmts, 24)]


def main(tier):
    ck = Check(PID, 'exploration', tier, deadline_s=900 if tier == 'quick' else 3000)
    b = ck.build('aldor', 'foam', 'libaldor', 'jars')
    tc = TC(b)
    fams = ['F3', 'F5', 'F6', 'F8', 'F9', 'F10', 'F1', 'F2', 'F4']
    allc = [(f, c) for f, c in families.all_cases(tier, fams) if in_profile(c)]
    if tier == 'quick':
        # quick bound: 60 profile members of every family, evenly spaced over the family (so that every operator group of the
        # enumeration is met)
        byf = {}
        for f, c in allc:
            byf.setdefault(f, []).append((f, c))
        cases = []
        for f in fams:
            lst = byf.get(f, [])
            if len(lst) <= 60:
                cases += lst
            else:
                cases += [lst[(i * len(lst)) // 60] for i in range(60)]
    else:
        cases = allc
    levels = (1, 3) if tier == 'quick' else (1, 3, 9)
    j1 = small_arith_cases()
    if tier == 'quick':
        j1 = [j1[(i * len(j1)) // 40] for i in range(40)] if len(j1) > 40 else j1
    cases = cases + j1
    jb = bi_cases()
    njb0 = len(cases)
    cases = cases + jb
    res = {}
    for q in levels:
        cfgs = [('interp', ('-Q%d' % q,)), ('java', ('-Q%d' % q,))]
        if tier == 'quick' and q == 3:
            # quick: the folding level only for the constant family (folded literals take other paths through the emitter)
            sub = diffeng.run_configs(ck, tc, jb, cfgs, pack=24, timeout=300)
            for lab, by in sub.items():
                res[lab] = {njb0 + i: o for i, o in by.items()}
        else:
            res.update(diffeng.run_configs(ck, tc, cases, cfgs, pack=24, timeout=300))
    for q in levels:
        ii = res.get('interp:-Q%d' % q, {})
        jj = res.get('java:-Q%d' % q, {})
        for k, j in jj.items():
            i = ii.get(k)
            if i is None:
                continue
            fam, case = cases[k]
            same = (i.status == 'ok') == (j.status == 'ok') and [l for l in i.lines if not l.startswith('<<')] == [l for l in j.lines if not l.startswith('<<')]
            if same:
                ck.nontrivial((q, fam, tuple(j.lines)))
                continue
            tail = ' '.join(j.lines[-1:])
            m = re.search(r'Java not implemented: ([A-Za-z: ]+)', tail)
            if m:
                key = 'java-not-implemented=%s' % m.group(1).strip().replace(' ', '')
            elif 'code too large' in ' '.join(j.lines) and j.status != 'ok':
                key = 'javac=code-too-large,level=-Q%d' % q
            else:
                key = 'case=%s@-Q%d' % (diffeng.case_id(fam, case), q)
            files, cmds = diffeng.replay_files(tc, fam, case, k, [('interp', ('-Q%d' % q,)), ('java', ('-Q%d' % q,))])
            files['interp.txt'] = '\n'.join(i.lines) + '\n'
            files['java.txt'] = '\n'.join(j.lines) + '\n'
            ck.report(key, 'family %s at -Q%d: java %s %s | interp %s %s' % (fam, q, j.status, j.lines[:8], i.status, i.lines[:8]), files, cmds)
    ck.cov.update({
        'rule': 'members of families %s inside the Java profile (values within +-2^30, no try/catch), packed 24 per unit, x levels %s: javac must accept the generated classes and '
                '`java` must print the interpreter\'s output with the same exit class; distinct = distinct (level, family, output) that agreed' % (fams, list(levels)),
        'cases': len(cases), 'profile_members_total': len(allc),
        'samples': [progspace.render_case(0, cases[len(cases) // 2][1])[:400]],
    })
    ck.assumptions += ['a construct is outside the profile only if the emitter itself reports it unimplemented or the 32-bit word changes the program\'s meaning']
    ck.finish()


if __name__ == '__main__':
    main(sys.argv[1] if len(sys.argv) > 1 else 'quick')
