"""C06 — ill-typed programs are rejected, well-typed ones accepted.
Accepted side: every unit of the program families compiles without an error.  Rejected side: for base programs of every
family, every eligible site x every fault of a catalogue (wrong argument type, missing / extra argument, undeclared name,
wrong result type, duplicate definition, assignment to a constant, missing export, operation outside the parameter's
category, missing import); one fault per mutant.  Oracle: non-zero exit, at least one (Error) carrying a source position,
and none of .ao .c .fm created."""
import os, re, sys, copy
from vlib.common import Check, run, pmap, VERIF, NCPU
from vlib import families, progspace, progrun, faults
from vlib.runners import TC, mkdir, write

PID = 'C06'
ARITH = ('+', '-', '*', 'quo', 'rem')


def tolist(x):
    return [tolist(y) for y in x] if isinstance(x, (tuple, list)) else x


def totuple(x):
    return tuple(totuple(y) for y in x) if isinstance(x, list) else x


def sites(node, path=()):
    """yield (path, node) for every tuple-like node"""
    if isinstance(node, list):
        yield path, node
        for i, c in enumerate(node):
            yield from sites(c, path + (i,))


def replace(root, path, new):
    r = copy.deepcopy(root)
    cur = r
    for i in path[:-1]:
        cur = cur[i]
    cur[path[-1]] = new
    return r


def user_fns(body):
    out = {}
    for p, n in sites(body):
        if n and n[0] == 'fn':
            out[n[1]] = len(n[2])
    return out


def mutants(case):
    """[(fault kind, site label, mutated case)] — each is ill-typed by construction"""
    it, body = case
    root = tolist(body)
    fns = user_fns(root)
    out = []
    for p, n in sites(root):
        if not n or not isinstance(n[0], str):
            continue
        k = n[0]
        if k == 'bin' and n[1] in ARITH:
            out.append(('wrong-argument-type', p, replace(root, p + (3,), ['lit', 'zz'])))
        elif k == 'call' and n[1] in fns and isinstance(n[2], list):
            if len(n[2]) >= 1:
                out.append(('missing-argument', p, replace(root, p + (2,), n[2][:-1])))
            out.append(('extra-argument', p, replace(root, p + (2,), n[2] + [['lit', 1], ['lit', 2]])))
            if n[2] and n[2][0][0] == 'lit' and isinstance(n[2][0][1], int):
                out.append(('wrong-argument-type', p, replace(root, p + (2, 0), ['lit', 'zz'])))
        elif k == 'var' and len(p) >= 1:
            out.append(('undeclared-name', p, replace(root, p, ['var', 'vundef9'])))
        elif k == 'fn' and n[3] == 'I' and n[4] and n[4][-1][0] == 'value':
            out.append(('wrong-result-type', p, replace(root, p + (4, len(n[4]) - 1), ['value', ['lit', 'zz']])))
        elif k == 'fn' and n[3] == 'I':
            pass
    return [(kind, 'site' + '.'.join(map(str, p)), (it, totuple(m))) for kind, p, m in out]


TEMPLATES = [
    ('duplicate-definition', 'dd(x: MachineInteger): MachineInteger == x;\ndd(x: MachineInteger): MachineInteger == x;\nc@K@(): () == { import from MachineInteger; pIMI("K:", dd 1) }\n'),
    ('assignment-to-constant', 'c@K@(): () == { import from MachineInteger; kc: MachineInteger == 5; kc := 6; pIMI("K:", kc) }\n'),
    # ('assignment-to-function': `ff := 3` inside another function declares a new local `ff` — the language allows it; removed from the catalogue)
    ('missing-export', 'define VCt: Category == with { mk: MachineInteger -> %; val: % -> MachineInteger };\nVDm: VCt == add { Rep == MachineInteger; mk(n: MachineInteger): % == per n; }\nc@K@(): () == { import from MachineInteger, VDm; pIMI("K:", val mk 1) }\n'),
    ('operation-outside-category', 'define VCt: Category == with { mk: MachineInteger -> % };\nVPr(T: VCt): with { run: MachineInteger -> MachineInteger } == add { import from T, MachineInteger; run(n: MachineInteger): MachineInteger == val(mk n) }\n'),
    ('missing-import', 'VDm: with { q: MachineInteger -> MachineInteger } == add { q(n: MachineInteger): MachineInteger == n };\nc@K@(): () == { import from MachineInteger; pIMI("K:", q 1) }\n'),
    ('wrong-argument-count-domain', 'VPr(T: with): with { r: () -> MachineInteger } == add { import from MachineInteger; r(): MachineInteger == 1 };\nc@K@(): () == { import from MachineInteger; pIMI("K:", r()$VPr(String, String)) }\n'),
    ('local-outside-scope', 'g1(): MachineInteger == { import from MachineInteger; inner: MachineInteger := 4; inner }\nc@K@(): () == { import from MachineInteger; pIMI("K:", inner) }\n'),
    ('boolean-where-integer', 'c@K@(): () == { import from MachineInteger; x: MachineInteger := true; pIMI("K:", x) }\n'),
    ('if-on-integer', 'c@K@(): () == { import from MachineInteger; x: MachineInteger := 1; if x then pIMI("K:", x) }\n'),
]


def _nested_free_faults():
    """assignment to a constant from k levels of nested functions, each level declaring the name `free` (untyped or typed):
    the assignment has to be carried outward through every intermediate `free` to the scope that defines the constant"""
    out = []
    for k in (1, 2, 3):
        for typed in (False, True):
            fr = 'free kc: MachineInteger;' if typed else 'free kc;'
            inner = 'kc := 6;'
            for lev in range(k, 0, -1):
                inner = 'nf%d(): () == { %s %s }; nf%d();' % (lev, fr, inner, lev) if lev > 1 else 'nf1(): () == { %s %s }' % (fr, inner)
            # constant local to the case function
            out.append(('assignment-to-constant-free%d%s-local' % (k, 't' if typed else ''),
                        'c@K@(): () == { import from MachineInteger; kc: MachineInteger == 5; %s; nf1(); pIMI("K:", kc) }\n' % inner))
            # constant at file level
            out.append(('assignment-to-constant-free%d%s-file' % (k, 't' if typed else ''),
                        'import from MachineInteger;\nkc: MachineInteger == 5;\n%s;\nc@K@(): () == { import from MachineInteger; nf1(); pIMI("K:", kc) }\n' % inner))
    return out


TEMPLATES += _nested_free_faults()


def keyword_faults():
    """calls of functions with default parameter values that must be rejected: a keyword that names no parameter (alone, next
    to positional arguments, with an ill-typed or undefined value), a keyword value of the wrong type, a parameter supplied
    twice, a required parameter left out, too many arguments"""
    sigs = [('kf', '(x: MachineInteger, factor: MachineInteger == 10, offs: MachineInteger == 0)', 'x * factor + offs',
             ['kf(2, bogus == 1)', 'kf(2, 3, colour == "red")', 'kf(2, bogus == undefinedFunction(7))', 'kf(2, offs == "s")', 'kf(2, offs == undefinedThing)',
              'kf(2, 3, 4, 5)', 'kf()', 'kf(offs == 1)', 'kf(2, factor == 1, factor == 2)', 'kf(2, 3, factor == 4)', 'kf(bogus == 2)', 'kf(2, 3, 4, bogus == 5)',
              'kf(2, x == 3)', 'kf(2, Offs == 1)']),
            ('kg', '(a: MachineInteger, b: MachineInteger == 2)', 'a + b', ['kg(1, c == 3)', 'kg(c == 3, a == 1)', 'kg(1, 2, 3)', 'kg(b == 1)', 'kg(1, b == true)']),
            ('kh', '(s: String == "d")', '#s', ['kh(t == "x")', 'kh(s == 1)', 'kh("a", "b")', 'kh(s == "a", s == "b")'])]
    out = []
    for name, params, body, calls in sigs:
        for i, c in enumerate(calls):
            text = '%s%s: MachineInteger == { import from MachineInteger; %s };\nc0(): () == {\n\timport from MachineInteger;\n\tpIMI("K0:", %s);\n}\n' % (name, params, body, c)
            out.append(('keyword-call:%s' % c.replace(' ', ''), text))
    return out


def ambiguity_faults():
    """applications that two overloads fit equally (same result type, polymorphic argument) must be rejected as ambiguous:
    user overloads, a library operator with two numeric domains imported, exports of two domains, operands that are
    themselves overloaded calls or constants; every argument position of a two-argument overload"""
    both = 'import from Integer, MachineInteger;\n'
    f2 = 'af(x: Integer): String == "i";\naf(x: MachineInteger): String == "m";\n'
    g2 = 'ag(x: Integer, y: String): String == "i";\nag(x: MachineInteger, y: String): String == "m";\nah(y: String, x: Integer): String == "i";\nah(y: String, x: MachineInteger): String == "m";\n'
    k2 = 'ak(): Integer == 1;\nak(): MachineInteger == 2;\n'
    doms = 'AA: with { sc: Integer -> String } == add { sc(n: Integer): String == "A" }\nAB: with { sc: MachineInteger -> String } == add { sc(n: MachineInteger): String == "B" }\n'
    progs = [('user-overload-literal', both + f2 + 'stdout << af(1) << newline;\n'),
             ('user-overload-literal-juxtaposed', both + f2 + 'stdout << af 1 << newline;\n'),
             ('user-overload-sum-of-literals', both + f2 + 'stdout << af(1 + 2) << newline;\n'),
             ('user-overload-first-of-two', both + g2 + 'stdout << ag(1, "s") << newline;\n'),
             ('user-overload-second-of-two', both + g2 + 'stdout << ah("s", 1) << newline;\n'),
             ('user-overload-of-overloaded-call', both + f2 + k2 + 'stdout << af(ak()) << newline;\n'),
             ('library-operator-two-domains', both + 'stdout << 1 << newline;\n'),
             ('library-infix-two-domains', both + 'stdout << (1 = 1) << newline;\n'),
             ('exports-of-two-domains', doms + both + 'import from AA, AB;\nstdout << sc 2 << newline;\n'),
             ('local-overload-in-function', both + 'aw(): String == { lf(x: Integer): String == "i"; lf(x: MachineInteger): String == "m"; lf(7) }\nstdout << aw() << newline;\n')]
    return [('ambiguous:' + n, t) for n, t in progs]


def main(tier):
    ck = Check(PID, 'exploration', tier)
    b = ck.build('aldor', 'foam', 'libaldor')
    tc = TC(b)
    # ---- accepted side -------------------------------------------------------------------------------
    cases = families.all_cases(tier)
    units = progrun.make_units(cases)

    def accept(u):
        if ck.expired():
            return u, None
        d = mkdir('%s/a%d' % (ck.work, u[0]))
        write(d + '/u.as', progrun.unit_text(u))
        r = tc.aldor(['-Q1', '-Fao', 'u.as'], d, timeout=200)
        ok = r.rc == 0 and os.path.exists(d + '/u.ao') and not faults.error_printed(r.text())
        import shutil
        shutil.rmtree(d, ignore_errors=True)
        return u, (ok, r)
    nacc = 0
    for u, res in pmap(accept, units):
        if res is None:
            ck.cut('unit not compiled')
            continue
        ok, r = res
        ck.count(len(u[1]))
        if ok:
            nacc += len(u[1])
        else:
            ck.report('well-typed-rejected=unit%d' % u[0], 'well-typed unit rejected (rc %s): %s' % (r.rc, r.text()[-700:]), files={'u.as': progrun.unit_text(u)})
    # well-typed twins of the nested-`free` faults: the same shapes with a variable instead of a constant must be accepted
    twins = [(k.replace('assignment-to-constant', 'assignment-to-variable'), t.replace('kc: MachineInteger == 5', 'kc: MachineInteger := 5'))
             for k, t in _nested_free_faults()]

    def accept_twin(kt):
        k, t = kt
        d = mkdir('%s/t-%s' % (ck.work, k))
        text = progspace.PRELUDE + t.replace('@K@', '0') + 'c0();\n'
        write(d + '/m.as', text)
        r = tc.aldor(['-Q1', '-Fao', 'm.as'], d, timeout=120)
        ok = r.rc == 0 and os.path.exists(d + '/m.ao') and not faults.error_printed(r.text())
        return k, text, ok, r
    for k, text, ok, r in pmap(accept_twin, twins):
        ck.count(1)
        if ok:
            nacc += 1
        else:
            ck.report('well-typed-rejected=%s' % k, 'well-typed program rejected (rc %s): %s' % (r.rc, r.text()[-700:]), files={'m.as': text})
    # ---- rejected side --------------------------------------------------------------------------------
    byfam = {}
    for f, c in cases:
        if c[0] != 'RAW':
            byfam.setdefault(f, []).append(c)
    bases = []
    per = 3 if tier == 'quick' else 12
    for f, lst in sorted(byfam.items()):
        step = max(1, len(lst) // per)
        bases += [(f, lst[i]) for i in range(0, len(lst), step)][:per]
    muts = []
    for f, c in bases:
        for kind, site, m in mutants(c):
            muts.append((kind, f, site, progspace.render_unit([m], 0)))
    for kind, text in TEMPLATES + keyword_faults() + ambiguity_faults():
        muts.append((kind, 'template', kind, progspace.PRELUDE + text.replace('@K@', '0') + ('c0();\n' if 'c@K@' in text else '')))

    chunks = [muts[i::NCPU * 2] for i in range(NCPU * 2)]

    def work(ci):
        d = mkdir('%s/r%d' % (ck.work, ci))
        out = []
        for kind, f, site, text in chunks[ci]:
            if ck.expired():
                return out, False
            for fn in os.listdir(d):
                os.remove(d + '/' + fn)
            write(d + '/m.as', text)
            r = tc.aldor(['-Q1', '-Fao', '-Fc', '-Ffm', 'm.as'], d, timeout=120)
            left = [x for x in os.listdir(d) if x.endswith(('.ao', '.c', '.fm'))]
            out.append((kind, f, site, text, r, left))
        return out, True
    kinds = {}
    for out, done in pmap(work, range(len(chunks)), n=NCPU):
        if not done:
            ck.cut('mutant chunk not finished')
        for kind, f, site, text, r, left in out:
            ck.count()
            t = r.text()
            cls, det = faults.classify(r)
            positioned = bool(re.search(r'\[L\d+ C\d+\] #\d+ \(Error\)', t))
            problem = None
            if cls != 'ok':
                problem = 'compiler %s %s' % (cls, det)
            elif r.rc == 0:
                problem = 'ill-typed program accepted (exit 0)'
            elif not positioned:
                problem = 'rejected without an error carrying a source position'
            elif left:
                problem = 'rejected but output files were created: %s' % left
            if problem:
                ck.report('fault=%s,family=%s' % (kind, f), '%s at %s: %s\n%s' % (kind, site, problem, t[-500:]), files={'m.as': text},
                          cmds=[' '.join(tc.b.base() + tc.flags + ['-Q1', '-Fao', '-Fc', '-Ffm', 'm.as'])])
            else:
                kinds[kind] = kinds.get(kind, 0) + 1
                ck.nontrivial((kind, f, site))
    ck.cov.update({
        'rule': 'accepted: all %d family cases compile without error; rejected: %d base programs x every eligible site x faults {wrong argument type, missing/extra argument, undeclared name, '
                'wrong result type} + %d template faults (duplicate definition, assignment to constant, missing export, operation outside category, missing import, ...) + 23 ill-formed calls of functions with default parameters (unknown keyword, parameter given twice, ...) + 10 ambiguous applications (two overloads with the same result type fit a polymorphic argument); '
                'distinct = mutants rejected with a positioned error and no output file' % (len(cases), len(bases), len(TEMPLATES)),
        'accepted_cases': nacc, 'mutants': len(muts), 'rejected_by_kind': kinds,
        'samples': [muts[0][3][-400:], TEMPLATES[3][1]],
    })
    ck.assumptions += ['each catalogue fault is ill-typed by construction (string literal where an integer is required, arity changes on user functions, a never-declared name)']
    ck.finish()


if __name__ == '__main__':
    main(sys.argv[1] if len(sys.argv) > 1 else 'quick')
