"""C10 — the storage manager never hands out or reclaims live memory.
fork()-based explicit-state DFS over the real store.c (white-box digest of its page map, free lists and free tree,
state matching through a shared visited table), plus one long deterministic history that executes every operation
triple in turn.  Oracle: reference model of live blocks (alignment, size, disjointness, fill patterns, resize prefix,
object code; blocks reachable from a root directly, through an interior pointer, or through a chain of heap blocks survive collection) and stoAudit() after every step."""
import os, re, sys, struct
from vlib.common import Check, run, pmap, NCPU, VERIF
from vlib import cmodel

PID = 'C10'
# (depth, maxslots, seeds)
PLAN = {
    'quick': {'dfs': [(3, 3, [0, 1, 2, 3])], 'walk': [(300000, 3, 0), (300000, 4, 1), (300000, 5, 2), (300000, 4, 3)]},
    'thorough': {'dfs': [(4, 3, [0, 1, 2, 3]), (3, 4, [0, 1, 2, 3])], 'walk': [(2500000, 3, 0), (2500000, 4, 1), (2500000, 4, 2), (2500000, 5, 3), (2500000, 6, 1), (2500000, 5, 0)]},
}
OPDOC = '0-11 alloc rooted size k; 12-23 alloc dropped size k; 24-29 free slot; 30-101 resize slot i to size k; 102 gc; 103-108 recode slot i; 109-180 alloc size k reachable only through the first word of slot i; 181-186 replace the root of slot i by an interior pointer; sizes=1,8,9,24,25,256,257,264,4000,4096,5000,70000'


def main(tier):
    ck = Check(PID, 'model_checking', tier)
    b = ck.build('aldor')
    try:
        h = cmodel.harness(b, 'c10')
    except Exception as e:
        ck.build_failed = str(e)
        print('BUILD FAILED (no property verdict):', e)
        ck.finish()
    tot = {'transitions': 0, 'states': 0, 'revisits': 0, 'audits': 0, 'maxdepth': 0}
    runs = []
    viol_seen = False

    def handle(text, what, maxslots, seed):
        nonlocal viol_seen
        for m in re.finditer(r'^VIOL kind=(\S+) seed=(\d+) maxslots=(\d+) ops=(\S*)$', text, re.M):
            viol_seen = True
            kind, sd, ms, ops = m.groups()
            ck.report('kind=%s' % kind, '%s: %s after ops %s (seed heap %s, <=%s slots)\n%s' % (what, kind, ops, sd, ms, OPDOC),
                      files={'ops.txt': 'seed=%s maxslots=%s ops=%s\n%s\n' % (sd, ms, ops, OPDOC)},
                      cmds=['%s/bin/vcheck harness c10 replay %s %s %s' % (VERIF, ms, sd, ops)])

    for depth, maxslots, seeds in PLAN[tier]['dfs']:
        for seed in seeds:
            if ck.expired():
                ck.cut('dfs depth %d slots %d seed %d not run' % (depth, maxslots, seed))
                continue
            shm = '/dev/shm/verif-c10-%d-%d-%d-%d' % (os.getpid(), depth, maxslots, seed)
            if os.path.exists(shm):
                os.remove(shm)
            left = max(30, ck.deadline_s - (ck.t0 and (__import__('time').time() - ck.t0)))

            def one(s):
                return run([h, 'dfs', str(depth), str(maxslots), str(seed), str(s), str(NCPU), shm], timeout=left, norand=False)
            res = pmap(one, range(NCPU))
            try:
                with open(shm, 'rb') as f:
                    tr, st, rv, vi, md, au, _ = struct.unpack('7q', f.read(56))
            except OSError:
                tr = st = rv = vi = md = au = 0
            finally:
                if os.path.exists(shm):
                    os.remove(shm)
            tot['transitions'] += tr; tot['states'] += st; tot['revisits'] += rv; tot['audits'] += au
            tot['maxdepth'] = max(tot['maxdepth'], md)
            complete = True
            for r in res:
                text = r.text()
                handle(text, 'dfs', maxslots, seed)
                if r.timeout:
                    complete = False
                elif r.rc != 0 and 'VIOL' not in text:
                    ck.report('kind=harness-exit-%s' % r.rc, 'dfs harness ended with %s: %s' % (r.rc, text[-500:]))
                elif 'STAT mode=dfs' not in text and 'VIOL' not in text:
                    ck.report('kind=harness-no-stat', text[-500:])
            if not complete:
                ck.cut('dfs depth %d slots %d seed %d hit the deadline' % (depth, maxslots, seed))
            runs.append({'mode': 'dfs', 'depth': depth, 'maxslots': maxslots, 'seed_heap': seed, 'transitions': tr,
                         'states': st, 'revisits': rv, 'complete': complete})

    # size sweep: every size up to 1200, then every multiple of 256 and its neighbours up to the bound, one short history each
    top = 300000 if tier == 'quick' else 1200000
    step = top // NCPU + 1
    sjobs = [(lo, min(top, lo + step), sd) for sd in ((0, 1) if tier == 'quick' else (0, 1, 2, 3)) for lo in range(1, top, step)]

    def sweep(j):
        return j, run([h, 'sweep', str(j[0]), str(j[1]), str(j[2])], timeout=max(60, ck.deadline_s), norand=False)
    nsizes = 0
    for j, r in pmap(sweep, sjobs):
        text = r.text()
        for m in re.finditer(r'^VIOL kind=(\S+) seed=(\d+) maxslots=(\d+) ops=(\S*)$', text, re.M):
            kind, sd, ms, ops = m.groups()
            ck.report('kind=%s' % kind, 'size sweep: %s for size history %s (seed heap %s)' % (kind, ops, sd),
                      files={'ops.txt': 'sweep size=%s seed=%s\n' % (ops.split(',')[0], sd)},
                      cmds=['%s/bin/vcheck harness c10 sweep %s %d %s' % (VERIF, ops.split(',')[0], int(ops.split(',')[0]) + 1, sd)])
        m = re.search(r'STAT mode=sweep seed=\d+ sizes=(\d+) bad=(\d+)', text)
        if m:
            nsizes += int(m.group(1))
            tot['transitions'] += 7 * int(m.group(1))
            tot['audits'] += 7 * int(m.group(1))
        elif r.timeout:
            ck.cut('sweep %s timed out' % (j,))
        elif 'VIOL' not in text:
            ck.report('kind=harness-exit-%s' % r.rc, 'sweep harness: %s' % text[-500:])
    runs.append({'mode': 'sweep', 'sizes': nsizes, 'upto': top})

    def walk(j):
        steps, maxslots, seed = j
        return j, run([h, 'walk', str(steps), str(maxslots), str(seed)], timeout=max(60, ck.deadline_s), norand=False)
    for j, r in pmap(walk, PLAN[tier]['walk']):
        text = r.text()
        handle(text, 'walk', j[1], j[2])
        m = re.search(r'STAT mode=walk seed=\d+ steps=(\d+) executed=(\d+)', text)
        if m:
            tot['transitions'] += int(m.group(2))
            tot['audits'] += int(m.group(2))
            runs.append({'mode': 'walk', 'steps': int(m.group(1)), 'executed': int(m.group(2)), 'maxslots': j[1], 'seed_heap': j[2]})
        elif r.timeout:
            ck.cut('walk %s timed out' % (j,))
        elif 'VIOL' not in text:
            ck.report('kind=harness-exit-%s' % r.rc, 'walk harness: %s' % text[-500:])
    ck.cov.update({
        'states': tot['states'], 'transitions': tot['transitions'], 'traces_validated_against_impl': tot['transitions'],
        'evaluations': tot['transitions'], 'distinct_nontrivial': tot['states'],
        'revisited_states_pruned': tot['revisits'], 'audits': tot['audits'], 'max_depth': tot['maxdepth'],
        'rule': 'every enabled operation from every reached state up to the depth bound, each branch a fork() of the live process; '
                'distinct = distinct canonical digests of (model slots, page map, fixed free lists, mixed free tree, frontier); '
                'there is no separate model trace: every transition is executed on the real store.c',
        'runs': runs,
        'samples': [{'ops': [5, 102, 36], 'meaning': 'alloc rooted 256 bytes; gc; resize slot 0 to 257 bytes (first mixed size)', 'alphabet': OPDOC}],
    })
    ck.assumptions += ['conservative collector: dropped blocks are never required to be reclaimed',
                       'the harness keeps rooted pointers in a static array (scanned as roots), hides all other copies by xor, and zeroes the dead stack before each collection so that only the model keeps blocks alive']
    ck.finish()


if __name__ == '__main__':
    main(sys.argv[1] if len(sys.argv) > 1 else 'quick')
