"""E0: tree-hash keyed build of the compiler, runtime, libraries and jars from /repo's
current working tree, into /verif/build/<hash>/.  Never writes under /repo.

Targets (built lazily, each check names what it needs):
  aldor     the compiler (all objects, -O0 -g -DALDOR_VERIF) -> <B>/aldor , objects in <B>/obj
  rt        libfoam C runtime objects (-DFOAM_RTS -DALDOR_VERIF) -> <B>/rt/*.o
  foamlib   libfoamlib .ao/.al/.a  -> <B>/foamlib
  foam      libfoam.al + runtime.c, libfoam.a (rt objects + runtime.o) -> <B>/foam
  libaldor  libaldor .ao/.al/.a -> <B>/aldorlib
  jars      foamj.jar foam.jar foamlib.jar aldor.jar -> <B>/jars
"""
import os, sys, re, hashlib, subprocess, shutil, time, fcntl, json, threading
import concurrent.futures as cf

REPO = os.environ.get('VERIF_REPO', '/repo')
R = REPO + '/aldor'
SRC = R + '/aldor/src'
VERIF = os.path.dirname(os.path.dirname(os.path.abspath(__file__)))
BUILDROOT = os.environ.get('VERIF_BUILDROOT', VERIF + '/build')
NCPU = int(os.environ.get('VERIF_JOBS', '16'))
GUARD = '-DALDOR_VERIF'
VCS = 'verif'

HASH_DIRS = [
    ('aldor/aldor/src', False), ('aldor/aldor/src/java', False),
    ('aldor/aldor/tools/unix', False),
    ('aldor/aldor/lib/libfoam/al', False), ('aldor/aldor/lib/libfoamlib/al', False),
    ('aldor/aldor/lib/java/src', True), ('aldor/aldor/test', False),
    ('aldor/lib/aldor/src', True), ('aldor/lib/aldor/include', False),
    ('aldor/lib', False), ('aldor/lib/axllib/src/al', False), ('aldor/lib/axllib/src', False), ('aldor/lib/axllib/include', False),
]
HASH_EXT = {'.c', '.h', '.h0', '.z', '.msg', '.sed', '.as', '.java', '.am', '.deps', '.conf',
            '.mk', '.y', '.l', '.in'}
GENERATED = {'axl_y.c', 'comsgdb.c', 'comsgdb.h', 'zaccgram.c', 'zaccgram.h', 'zaccscan.c'}


class BuildError(Exception):
    pass


def tree_hash():
    h = hashlib.sha256()
    for d, rec in HASH_DIRS:
        top = os.path.join(REPO, d)
        if not os.path.isdir(top):
            continue
        if rec:
            walker = os.walk(top)
        else:
            walker = [(top, [], os.listdir(top))]
        ents = []
        for dp, dn, fn in walker:
            dn[:] = sorted(x for x in dn if x not in ('aldorcode', 'jar', '.libs', '.deps'))
            for f in fn:
                ext = os.path.splitext(f)[1]
                if ext not in HASH_EXT or f in GENERATED:
                    continue
                if f == 'Makefile.in' and os.path.exists(os.path.join(dp, 'Makefile.am')):
                    continue   # automake output
                if f.endswith('_test.as') or f.endswith('_jtest.as'):
                    continue   # extracted by `make check`
                ents.append(os.path.join(dp, f))
        for p in sorted(ents):
            if os.path.isfile(p):
                h.update(p.encode()); h.update(b'\0')
                with open(p, 'rb') as fh:
                    h.update(fh.read())
                h.update(b'\0')
    h.update(b'build.py v9')
    return h.hexdigest()[:16]


def run(cmd, cwd=None, env=None, ok=(0,), what=None):
    p = subprocess.run(cmd, cwd=cwd, env=env, stdout=subprocess.PIPE, stderr=subprocess.STDOUT,
                       text=True, errors='replace')
    if p.returncode not in ok:
        raise BuildError('%s failed (exit %d): %s\n%s' % (what or cmd[0], p.returncode,
                         ' '.join(cmd)[:400], p.stdout[-3000:]))
    return p.stdout


def pmap(fn, items, n=NCPU):
    with cf.ThreadPoolExecutor(n) as ex:
        return list(ex.map(fn, items))


def am_var(text, name):
    m = re.findall(r'^' + re.escape(name) + r'[ \t]*:?=[ \t]*(.*)$', text, re.M)
    return m[-1].split() if m else []


class Build:
    def __init__(self, B):
        self.B = B
        self.aldor = B + '/aldor'
        self.conf = SRC + '/aldor.conf'
        self.inc = [B + '/src']
        self.foamlib = B + '/foamlib'
        self.foam = B + '/foam'
        self.aldorlib = B + '/aldorlib'
        self.jars = B + '/jars'
        self.obj = B + '/obj'
        self.rt = B + '/rt'
        self.log = []

    # ---- helpers for checks -------------------------------------------------------
    def base(self):
        return [self.aldor, '-Nfile=' + self.conf]

    def aldor_flags(self):
        """libaldor dialect flags"""
        return ['-I' + R + '/lib/aldor/include', '-Y' + self.aldorlib, '-Y' + self.foam]

    def foamlib_flags(self):
        return ['-I' + R + '/aldor/lib/libfoamlib/al', '-Y' + self.foamlib, '-Y' + self.foam]

    def cflags(self):
        return ['-w', '-O0'] + ['-I' + i for i in self.inc]

    def link_aldor(self):
        return [self.aldorlib + '/libaldor.a', self.foam + '/libfoam.a', '-lm']

    def link_foamlib(self):
        return [self.foamlib + '/rtexns.o', self.foamlib + '/libfoamlib.a', self.foam + '/libfoam.a', '-lm']

    def classpath(self, lib='aldor'):
        j = self.jars
        return ':'.join([j + '/foamj.jar', j + '/foam.jar', j + ('/aldor.jar' if lib == 'aldor' else '/foamlib.jar')])

    # ---- targets ---------------------------------------------------------------------
    def done(self, t):
        return os.path.exists(self.B + '/.done_' + t)

    def mark(self, t):
        open(self.B + '/.done_' + t, 'w').write(time.strftime('%F %T'))

    def need(self, *targets):
        for t in targets:
            if self.done(t):
                continue
            lockf = open(self.B + '/.lock_' + t, 'w')
            fcntl.flock(lockf, fcntl.LOCK_EX)
            try:
                if not self.done(t):
                    t0 = time.time()
                    getattr(self, 'build_' + t)()
                    self.mark(t)
                    sys.stderr.write('[build] %s built in %.1fs\n' % (t, time.time() - t0))
            finally:
                fcntl.flock(lockf, fcntl.LOCK_UN)
                lockf.close()
        return self

    def src_lists(self):
        t = open(SRC + '/Makefile.am').read().replace('\\\n', ' ')
        out = {}
        for v in ['libport_a_SOURCES', 'libgen_a_SOURCES', 'libstruct_a_SOURCES',
                  'libphase_a_SOURCES', 'aldor_SOURCES']:
            out[v] = am_var(t, v)
        return out

    def build_tools(self):
        T = self.B + '/tools'
        os.makedirs(T, exist_ok=True)
        U = R + '/aldor/tools/unix'
        run(['bison', '-y', '-d', '-o', T + '/zaccgram.c', U + '/zaccgram.y'], what='bison zaccgram')
        run(['flex', '-o', T + '/zaccscan.c', U + '/zaccscan.l'], what='flex zaccscan')
        run(['gcc', '-w', '-O0', '-I' + T, '-I' + U, '-o', T + '/zacc', T + '/zaccscan.c',
             T + '/zaccgram.c', U + '/zacc.c', U + '/cenum.c'], what='cc zacc')
        run(['gcc', '-w', '-O0', '-I' + U, '-o', T + '/msgcat', U + '/msgcat.c'], what='cc msgcat')

    def build_gen(self):
        self.need('tools')
        G = self.B + '/gen'
        os.makedirs(G, exist_ok=True)
        T = self.B + '/tools'
        # private copy of the sources: quoted includes look in the including file's directory first, and /repo may hold
        # stale generated headers (comsgdb.h, opsys_port.h) from its own in-tree build
        S = self.B + '/src'
        if os.path.isdir(S):
            shutil.rmtree(S)
        os.makedirs(S + '/java')
        for sub in ('', 'java/'):
            for f in os.listdir(SRC + '/' + sub):
                p = SRC + '/' + sub + f
                if os.path.isfile(p) and os.path.splitext(f)[1] in ('.c', '.h', '.h0', '.z', '.msg', '.sed', '.conf', '.in', '.typ', '.terminfo') and f not in GENERATED and f != 'opsys_port.h':
                    shutil.copy(p, S + '/' + sub + f)
        run([T + '/zacc', '-p', '-y', 'axl_y.yt', '-c', 'axl_y.c', SRC + '/axl.z'], cwd=G, what='zacc axl.z')
        out = run(['sed', '-f', SRC + '/axl_y.sed', G + '/axl_y.c'])
        open(S + '/axl_y.c', 'w').write(out)
        shutil.copy(SRC + '/comsgdb.msg', G + '/comsgdb.msg')
        run([T + '/msgcat', '-h', '-c', '-detab', 'comsgdb'], cwd=G, what='msgcat')
        shutil.copy(G + '/comsgdb.c', S + '/comsgdb.c')
        shutil.copy(G + '/comsgdb.h', S + '/comsgdb.h')
        s = open(SRC + '/opsys_port.h.in').read().replace('@SBRK_OPT@', '_DEFAULT_SOURCE')
        open(S + '/opsys_port.h', 'w').write(s)

    def cc_many(self, jobs):
        def one(j):
            src, obj, extra = j
            os.makedirs(os.path.dirname(obj), exist_ok=True)
            run(['gcc', '-O0', '-g', '-std=c99', '-w', GUARD, '-DVCSVERSION="%s"' % VCS] + extra +
                ['-I' + self.B + '/src', '-c', src, '-o', obj], what='cc ' + os.path.basename(src))
        pmap(one, jobs)

    def comp_objs(self):
        L = self.src_lists()
        srcs = L['libport_a_SOURCES'] + L['libgen_a_SOURCES'] + L['libstruct_a_SOURCES'] + L['libphase_a_SOURCES']
        return srcs, L['aldor_SOURCES']

    def build_aldor(self):
        self.need('gen')
        libsrcs, mainsrcs = self.comp_objs()
        jobs = []
        objs = []
        for s in libsrcs + mainsrcs:
            base = os.path.basename(s)
            path = self.B + '/src/' + s
            o = self.obj + '/' + s.replace('/', '_')[:-2] + '.o'
            jobs.append((path, o, []))
            objs.append(o)
        self.cc_many(jobs)
        run(['gcc', '-g', '-o', self.aldor + '.tmp'] + objs + ['-lm'], what='link aldor')
        os.replace(self.aldor + '.tmp', self.aldor)
        # library of everything but main.o, for harnesses
        libobjs = [o for o in objs if not o.endswith('/main.o') and not o.endswith('/test.o')]
        if os.path.exists(self.B + '/libcomp.a'):
            os.remove(self.B + '/libcomp.a')
        run(['ar', 'cr', self.B + '/libcomp.a'] + libobjs, what='ar libcomp')

    RT_C = ['aldorlib.c', 'btree.c', 'compopt.c', 'dword.c', 'foam_c.c', 'foam_cfp.c', 'foamopt.c',
            'opsys.c', 'output.c', 'stdc.c', 'store.c', 'table.c', 'timer.c', 'util.c', 'xfloat.c',
            'bigint.c', 'foam_i.c']

    def build_rt(self):
        self.need('gen')
        # the list of runtime C sources is read from libfoam/Makefile.am when possible
        try:
            t = open(R + '/aldor/lib/libfoam/Makefile.am').read().replace('\\\n', ' ')
            l = am_var(t, 'runtime_CSOURCES')
            if l:
                self.RT_C = l + ['bigint.c', 'foam_i.c']
        except OSError:
            pass
        jobs = [(self.B + '/src/' + s, self.rt + '/' + s[:-2] + '.o', ['-DFOAM_RTS']) for s in self.RT_C]
        self.cc_many(jobs)

    # ---- aldor libraries ---------------------------------------------------------------
    def parse_lib(self, d):
        txt = open(d + '/Makefile.in').read().replace('\\\n', ' ')
        deps = open(d + '/Makefile.deps').read().replace('\\\n', ' ')
        lib = am_var(txt, 'library')
        internal = am_var(txt, 'internal')
        units = internal + lib
        dd = {u: am_var(deps, u + '_deps') for u in units}
        flags = {}
        for u in units:
            f = am_var(txt, u + '_AXLFLAGS')
            if f:
                flags[u] = f
        return units, lib, dd, flags

    def build_units(self, srcdir, outdir, libname, Libname, axlflags, incdir, prior_ao=()):
        os.makedirs(outdir, exist_ok=True)
        units, lib, dd, uflags = self.parse_lib(srcdir)
        units = [u for u in units if os.path.exists('%s/%s.as' % (srcdir, u))]

        def closure(u):
            out = []

            def rec(x):
                for y in dd.get(x, []):
                    rec(y)
                    if y not in out:
                        out.append(y)
            rec(u)
            return out

        def one(u):
            dep = closure(u)
            al = '%s/lib%s_%s.al' % (outdir, libname, u)
            if os.path.exists(al):
                os.remove(al)
            members = list(prior_ao) + ['%s/%s.ao' % (outdir, x) for x in dep]
            run(['ar', 'cr', al] + members, what='ar ' + u)
            cmd = [self.aldor, '-Nfile=' + self.conf, '-Mno-ALDOR_W_WillObsolete', '-Wcheck', '-Waudit'] + \
                axlflags + ['-Y.', '-I' + incdir, '-l%sLib=%s_%s' % (Libname, libname, u),
                            '-DBuild%sLib' % Libname] + uflags.get(u, []) + \
                ['-Fao=%s.ao' % u, '%s/%s.as' % (srcdir, u)]
            try:
                run(cmd, cwd=outdir, what='aldor ' + u)
            finally:
                if os.path.exists(al):
                    os.remove(al)

        remaining = list(units)
        running = {}
        finished = set()
        with cf.ThreadPoolExecutor(NCPU) as ex:
            while remaining or running:
                for u in list(remaining):
                    if all((d in finished) or (d not in units) for d in dd[u]):
                        remaining.remove(u)
                        running[ex.submit(one, u)] = u
                if not running:
                    raise BuildError('library dependency cycle in ' + srcdir)
                dn, _ = cf.wait(running, return_when=cf.FIRST_COMPLETED)
                for f in dn:
                    u = running.pop(f)
                    f.result()
                    finished.add(u)
        return ['%s/%s.ao' % (outdir, u) for u in units], ['%s/%s.ao' % (outdir, u) for u in lib]

    def ao_to_c_objs(self, aos, outdir, extra_flags=()):
        """aldor -Fc each .ao, then gcc each .c; returns list of .o"""
        def one(ao):
            u = os.path.basename(ao)[:-3]
            run([self.aldor, '-Nfile=' + self.conf, '-Mno-ALDOR_W_WillObsolete'] + list(extra_flags) +
                ['-Fc=%s.c' % u, ao], cwd=outdir, what='ao2c ' + u)
            run(['gcc', '-O0', '-w'] + ['-I' + i for i in self.inc] + ['-c', u + '.c', '-o', u + '.o'],
                cwd=outdir, what='cc ' + u)
            return '%s/%s.o' % (outdir, u)
        return pmap(one, aos)

    def build_foamlib(self):
        self.need('aldor')
        FL = R + '/aldor/lib/libfoamlib/al'
        out = self.foamlib
        if os.path.isdir(out):
            shutil.rmtree(out)
        allao, libao = self.build_units(FL, out, 'foamlib', 'Axl', ['-Zdb', '-Q8'], FL)
        run(['ar', 'cr', out + '/libfoamlib.al'] + libao)
        objs = self.ao_to_c_objs(libao, out)
        run(['ar', 'cr', out + '/libfoamlib.a'] + objs)

    def build_foam(self):
        self.need('aldor', 'rt', 'foamlib')
        FO = R + '/aldor/lib/libfoam/al'
        FL = R + '/aldor/lib/libfoamlib/al'
        out = self.foam
        if os.path.isdir(out):
            shutil.rmtree(out)
        allao, libao = self.build_units(FO, out, 'foam', 'Runtime',
                                        ['-Zdb', '-Q9', '-Qinline-all', '-I' + FL, '-Y' + self.foamlib], FO)
        run(['ar', 'cr', out + '/libfoam.al'] + libao)
        objs = self.ao_to_c_objs(libao, out)
        rtobjs = [self.rt + '/' + s[:-2] + '.o' for s in self.RT_C]
        run(['ar', 'cr', out + '/libfoam.a'] + objs + rtobjs)
        # rtexns (foamlib programs need it when linked)
        rt = R + '/aldor/test/rtexns.as'
        if os.path.exists(rt):
            run([self.aldor, '-Nfile=' + self.conf] + self.foamlib_flags() + ['-Fc=rtexns.c', '-Fao=rtexns.ao', rt],
                cwd=self.foamlib, what='rtexns')
            run(['gcc', '-O0', '-w'] + ['-I' + i for i in self.inc] + ['-c', 'rtexns.c', '-o', 'rtexns.o'],
                cwd=self.foamlib, what='cc rtexns')

    def build_axllib(self):
        """the older axllib library (used by the pinned corpus lib/axllib/test)"""
        self.need('aldor', 'foam', 'foamlib')
        AX = R + '/lib/axllib/src/al'
        out = self.B + '/axllib'
        if os.path.isdir(out):
            shutil.rmtree(out)
        allao, libao = self.build_units(AX, out, 'axllib', 'Axl', ['-Q8'], R + '/lib/axllib/include')
        run(['ar', 'cr', out + '/libaxllib.al'] + libao)
        objs = self.ao_to_c_objs(libao, out)
        for f in sorted(os.listdir(R + '/lib/axllib/src')):
            if f.endswith('.c'):
                o = out + '/' + f[:-2] + '.o'
                run(['gcc', '-O0', '-w'] + ['-I' + i for i in self.inc] + ['-c', R + '/lib/axllib/src/' + f, '-o', o], what='cc ' + f)
                objs.append(o)
        run(['ar', 'cr', out + '/libaxllib.a'] + objs)

    def axllib_flags(self):
        return ['-I' + R + '/lib/axllib/include', '-Y' + self.B + '/axllib', '-Y' + self.foam]

    def link_axllib(self):
        return [self.B + '/axllib/libaxllib.a', self.foam + '/libfoam.a', self.foamlib + '/libfoamlib.a', '-lm']

    ALDOR_SUBDIRS = ['lang', 'base', 'arith', 'datastruc', 'util', 'lisp', 'test']

    def build_libaldor(self):
        self.need('aldor', 'foam')
        out = self.aldorlib
        if os.path.isdir(out):
            shutil.rmtree(out)
        os.makedirs(out)
        try:
            t = open(R + '/lib/aldor/src/Makefile.am').read().replace('\\\n', ' ')
            sd = [x for x in am_var(t, 'SUBDIRS') if not x.startswith('$')]
            if sd:
                self.ALDOR_SUBDIRS = sd
        except OSError:
            pass
        prior = []
        for sub in self.ALDOR_SUBDIRS:
            d = R + '/lib/aldor/src/' + sub
            if not os.path.exists(d + '/Makefile.deps'):
                continue
            allao, libao = self.build_units(d, out + '/' + sub, 'aldor', 'Aldor', ['-Q3'],
                                            R + '/lib/aldor/include', prior)
            prior += libao
        run(['ar', 'cr', out + '/libaldor.al'] + prior)
        objs = []
        for sub in self.ALDOR_SUBDIRS:
            aos = [a for a in prior if a.startswith(out + '/' + sub + '/')]
            objs += self.ao_to_c_objs(aos, out + '/' + sub)
        # hand-written C that is part of libaldor.a (tracked .c files next to the .as units)
        for dp, dn, fn in os.walk(R + '/lib/aldor/src'):
            dn[:] = [x for x in dn if x in self.ALDOR_SUBDIRS]
            for f in sorted(fn):
                if f.endswith('.c') and not os.path.exists(os.path.join(dp, f[:-2] + '.as')):
                    o = out + '/' + f[:-2] + '.o'
                    run(['gcc', '-O0', '-w'] + ['-I' + i for i in self.inc] + ['-c', os.path.join(dp, f), '-o', o],
                        what='cc ' + f)
                    objs.append(o)
        run(['ar', 'cr', out + '/libaldor.a'] + objs)
        self.libaldor_aos = prior

    def build_jars(self):
        self.need('aldor', 'foam', 'foamlib', 'libaldor')
        J = self.jars
        if os.path.isdir(J):
            shutil.rmtree(J)
        os.makedirs(J + '/foamj')
        JS = R + '/aldor/lib/java/src'
        srcs = [os.path.join(dp, f) for dp, dn, fn in os.walk(JS + '/foamj') for f in fn if f.endswith('.java')]
        run(['javac', '-nowarn', '-d', J + '/foamj'] + srcs, what='javac foamj')
        run(['jar', 'cf', J + '/foamj.jar', '-C', J + '/foamj', '.'], what='jar foamj')

        def mkjar(name, aos):
            d = J + '/' + name
            os.makedirs(d, exist_ok=True)

            def one(ao):
                run([self.aldor, '-Nfile=' + self.conf, '-Mno-ALDOR_W_WillObsolete', '-Fjava', ao], cwd=d,
                    what='ao2java ' + os.path.basename(ao))
            pmap(one, aos)
            js = [os.path.join(d, 'aldorcode', f) for f in os.listdir(d + '/aldorcode') if f.endswith('.java')]
            run(['javac', '-nowarn', '-cp', J + '/foamj.jar', '-d', d + '/cls'] + js, what='javac ' + name)
            run(['jar', 'cf', J + '/' + name + '.jar', '-C', d + '/cls', '.'], what='jar ' + name)
            shutil.rmtree(d)

        mkjar('foam', [self.foam + '/runtime.ao'])
        _, fl_lib, _, _ = self.parse_lib(R + '/aldor/lib/libfoamlib/al')
        mkjar('foamlib', ['%s/%s.ao' % (self.foamlib, u) for u in fl_lib])
        aos = []
        for sub in self.ALDOR_SUBDIRS:
            d = R + '/lib/aldor/src/' + sub
            if not os.path.exists(d + '/Makefile.deps'):
                continue
            _, lib, _, _ = self.parse_lib(d)
            excl = am_var(open(d + '/Makefile.in').read().replace('\\\n', ' '), 'java_exclude')
            aos += ['%s/%s/%s.ao' % (self.aldorlib, sub, u) for u in lib if u not in excl]
        mkjar('aldor', aos)
        shutil.rmtree(J + '/foamj')


def prune(keep):
    """keep at most two build trees"""
    try:
        ds = [d for d in os.listdir(BUILDROOT) if os.path.isdir(BUILDROOT + '/' + d) and len(d) == 16]
    except OSError:
        return
    ds = [d for d in ds if d != keep]
    ds.sort(key=lambda d: os.path.getmtime(BUILDROOT + '/' + d), reverse=True)
    for d in ds[1:]:
        shutil.rmtree(BUILDROOT + '/' + d, ignore_errors=True)


def get(*targets):
    h = tree_hash()
    B = BUILDROOT + '/' + h
    os.makedirs(B, exist_ok=True)
    os.utime(B)
    b = Build(B)
    b.hash = h
    b.need(*targets)
    prune(h)
    return b


if __name__ == '__main__':
    t0 = time.time()
    try:
        b = get(*(sys.argv[1:] or ['aldor']))
    except BuildError as e:
        print('BUILD FAILED:', e)
        sys.exit(3)
    print(b.B, '%.1fs' % (time.time() - t0))
