/* C10: explicit-state exploration of the storage manager (store.c included as-is from the working tree).
 *
 *   c10 dfs <depth> <maxslots> <seed> <shard> <nshards> <shmfile>   fork()-based DFS with state matching
 *   c10 walk <steps> <maxslots> <seed>                               one long deterministic history (all op triples in turn)
 *   c10 replay <maxslots> <seed> <op,op,...>                         linear replay of one history, no explorer
 *
 * State = live process (copied by fork).  Reference model = set of live blocks (address, requested size, fill byte, code).
 */
#include "store.c"          /* the unit under test, with its statics visible (white-box digest) */

#include <stdint.h>
#include <signal.h>
#include <unistd.h>
#include <fcntl.h>
#include <sys/mman.h>
#include <sys/wait.h>
#include <sys/prctl.h>
#include "vh.h"

static const unsigned long sizes[] = { 1, 8, 9, 24, 25, 256, 257, 264, 4000, 4096, 5000, 70000 };
#define NS 12
#define MAXSLOT 6
/* p is the root word the collector can see: the block address, an interior address (interior=1), or 0 (dropped, or held
 * only through the first word of the parent block); hidden always holds the disguised true address */
typedef struct { unsigned char *p; unsigned long req; unsigned char fill; int code; int rooted; uintptr_t hidden; int szi; int parent; int interior; int haschild; } Slot;
static Slot slot[MAXSLOT];
static int nslot = 0, maxslots = 3;
static int path[64], plen = 0;
static int seedno = 0;

/* shared between all processes of one exploration */
typedef struct { volatile long transitions, states, revisits, violations, maxdepth, audits; volatile long outcomes; } Shared;
static Shared *sh;
static volatile uint64_t *visited; static uint64_t vmask;

#define HIDE(p) (((uintptr_t)(p)) ^ 0x5a5a5a5a5a5aUL)
static unsigned char fillfor(int si, int szi, int rooted) { return (unsigned char)(0x31 + 37 * si + 11 * szi + (rooted ? 0 : 5)); }
static unsigned char *sptr(Slot *s) { return (unsigned char *) HIDE(s->hidden); }
static int live(int i) { int n = 0; while (i >= 0 && n++ < MAXSLOT + 1) { if (slot[i].rooted) return 1; i = slot[i].parent; } return 0; }
/* remove slot i from the model (its block was freed or may have been collected); the last slot moves into its place */
static void drop_slot(int i)
{
	int j, last = nslot - 1;
	for (j = 0; j < nslot; j++) if (slot[j].parent == i) slot[j].parent = -1;
	if (slot[i].parent >= 0) slot[slot[i].parent].haschild = 0;
	slot[i] = slot[last];
	memset(&slot[last], 0, sizeof(Slot)); slot[last].parent = -1;
	nslot--;
	if (i < nslot) {
		Slot *s = &slot[i];
		for (j = 0; j < nslot; j++) if (slot[j].parent == last) slot[j].parent = i;
		/* keep fill a function of (slot index, size): rewrite the moved block if the model still owns it */
		if (!live(i)) return;           /* an unreachable block may already be gone: never touch it */
		s->fill = fillfor(i, s->szi, s->rooted);
		memset(sptr(s) + (s->haschild ? sizeof(Pointer) : 0), s->fill, s->req - (s->haschild ? sizeof(Pointer) : 0));
	}
}

static void fail(const char *msg)
{
	char b[600], ob[300];
	int n;
	vh_ops(ob, sizeof ob, path, plen);
	n = snprintf(b, sizeof b, "VIOL kind=%s seed=%d maxslots=%d ops=%s\n", msg, seedno, maxslots, ob);
	if (write(1, b, n)) {}
	if (sh) __sync_fetch_and_add(&sh->violations, 1);
	_exit(3);
}
static void on_crash(int sig) { char m[40]; snprintf(m, sizeof m, "crash-signal-%d", sig); fail(m); }
static MostAlignedType *sto_err(int e) { char m[40]; snprintf(m, sizeof m, "storage-error-%d", e); fail(m); return 0; }


/* oracle on the whole state */
static void check_all(void)
{
	int i, j; unsigned long k;
	for (i = 0; i < nslot; i++) {
		Slot *s = &slot[i];
		unsigned char *p = sptr(s);
		unsigned long sz = stoSize(p);
		if (sz < s->req) fail("size-smaller-than-requested");
		if (((uintptr_t) p) % sizeof(MostAlignedType)) fail("misaligned");
		if (!isInHeap(p)) fail("outside-heap");
		for (k = s->haschild ? sizeof(Pointer) : 0; k < s->req; k++) if (p[k] != s->fill) fail("live-block-content-changed");
		if (s->parent >= 0 && *(unsigned char **) sptr(&slot[s->parent]) != p) fail("live-block-content-changed");
		if (stoCode(p) != (unsigned) s->code) fail("code-lost");
		for (j = 0; j < i; j++) {
			unsigned char *q = sptr(&slot[j]);
			if (!(p + s->req <= q || q + slot[j].req <= p)) fail("live-blocks-overlap");
		}
	}
	stoAudit();
	if (sh) __sync_fetch_and_add(&sh->audits, 1);
}

/* ---- operations ------------------------------------------------------------------------------ */
/* op encoding: [0,NS) alloc rooted size k; [NS,2NS) alloc dropped; then free slot i; resize slot i to size k; gc; recode slot i;
 * then alloc size k held only by the first word of slot i (heap-to-heap reference); then turn the root of slot i into an
 * interior pointer (middle of the block) */
#define OP_FREE   (2 * NS)
#define OP_RESIZE (OP_FREE + MAXSLOT)
#define OP_GC     (OP_RESIZE + MAXSLOT * NS)
#define OP_RECODE (OP_GC + 1)
#define OP_CHILD  (OP_RECODE + MAXSLOT)
#define OP_INTER  (OP_CHILD + MAXSLOT * NS)
#define OP_END    (OP_INTER + MAXSLOT)
static int nops(void) { return OP_END; }
static void decode(int op, int *kind, int *a, int *b)
{
	*a = *b = 0;
	if (op < NS) { *kind = 0; *a = op; }
	else if (op < OP_FREE) { *kind = 1; *a = op - NS; }
	else if (op < OP_RESIZE) { *kind = 2; *a = op - OP_FREE; }
	else if (op < OP_GC) { *kind = 3; *a = (op - OP_RESIZE) / NS; *b = (op - OP_RESIZE) % NS; }
	else if (op == OP_GC) { *kind = 4; }
	else if (op < OP_CHILD) { *kind = 5; *a = op - OP_RECODE; }
	else if (op < OP_INTER) { *kind = 6; *a = (op - OP_CHILD) / NS; *b = (op - OP_CHILD) % NS; }
	else { *kind = 7; *a = op - OP_INTER; }
}
static int enabled(int op)
{
	int kind, a, b;
	decode(op, &kind, &a, &b);
	if (kind == 0 || kind == 1) return nslot < maxslots;
	if (kind == 2 || kind == 5) return a < nslot && slot[a].rooted;
	if (kind == 3) return a < nslot && slot[a].rooted && slot[a].szi != b && !(slot[a].haschild && sizes[b] < sizeof(Pointer));
	if (kind == 6) return nslot < maxslots && a < nslot && live(a) && !slot[a].haschild && slot[a].req >= sizeof(Pointer);
	if (kind == 7) return a < nslot && slot[a].rooted && !slot[a].interior && slot[a].req > 1;
	return 1;
}
/* overwrite the dead part of the stack (and, through the call, the caller-saved registers) so that stale copies of block
 * addresses left by earlier calls do not keep unreachable blocks alive by accident: the model must be the only reason a
 * block survives, otherwise a collector that fails to trace heap-to-heap references goes unnoticed */
static void __attribute__((noinline)) scrub_stack(void)
{
	volatile char pad[48 * 1024];
	unsigned i;
	for (i = 0; i < sizeof pad; i++) pad[i] = 0;
}
static void __attribute__((noinline)) apply(int op)
{
	int kind, a, b, i;
	decode(op, &kind, &a, &b);
	if (kind == 0 || kind == 1 || kind == 6) {
		Slot *s = &slot[nslot];
		unsigned char *p;
		int szi = kind == 6 ? b : a;
		s->req = sizes[szi]; s->szi = szi; s->code = 1 + (szi + nslot) % 5; s->rooted = (kind == 0);
		s->parent = -1; s->interior = 0; s->haschild = 0;
		s->fill = fillfor(nslot, szi, s->rooted);
		p = (unsigned char *) stoAlloc(s->code, s->req);
		if (!p) fail("alloc-returned-null");
		/* must not overlap any live block BEFORE we write to it */
		for (i = 0; i < nslot; i++) { unsigned char *q = sptr(&slot[i]); if (!(p + s->req <= q || q + slot[i].req <= p)) fail("alloc-returned-live-memory"); }
		memset(p, s->fill, s->req);
		s->hidden = HIDE(p);
		s->p = s->rooted ? p : 0;
		if (kind == 6) { s->parent = a; slot[a].haschild = 1; *(unsigned char **) sptr(&slot[a]) = p; }
		p = 0;
		nslot++;
	}
	else if (kind == 2) {
		stoFree(sptr(&slot[a]));
		drop_slot(a);
	}
	else if (kind == 3) {
		Slot *s = &slot[a];
		unsigned long nreq = sizes[b], k, common = s->req < nreq ? s->req : nreq, skip = s->haschild ? sizeof(Pointer) : 0;
		unsigned char *np = (unsigned char *) stoResize(sptr(s), nreq);
		if (!np) fail("resize-returned-null");
		for (k = skip; k < common; k++) if (np[k] != s->fill) fail("resize-lost-prefix");
		if (s->haschild) for (i = 0; i < nslot; i++) if (slot[i].parent == a && *(unsigned char **) np != sptr(&slot[i])) fail("resize-lost-prefix");
		for (i = 0; i < nslot; i++) if (i != a) { unsigned char *q = sptr(&slot[i]); if (!(np + nreq <= q || q + slot[i].req <= np)) fail("resize-returned-live-memory"); }
		s->p = np; s->hidden = HIDE(np); s->interior = 0; s->req = nreq; s->szi = b; s->fill = fillfor(a, b, 1);
		memset(np + skip, s->fill, nreq - skip);
	}
	else if (kind == 4) {
		scrub_stack();
		stoGc();
		/* unreachable blocks may now be gone: forget them (never required to be reclaimed) */
		for (i = 0; i < nslot; ) { if (!live(i)) drop_slot(i); else i++; }
	}
	else if (kind == 5) {
		slot[a].code = 7;
		stoRecode(sptr(&slot[a]), 7);
	}
	else {
		slot[a].interior = 1;
		slot[a].p = sptr(&slot[a]) + slot[a].req / 2;
	}
	check_all();
}

/* ---- canonical digest of (model, allocator) -------------------------------------------------- */
static void bt_hash(BTree x, uint64_t *h)
{
	int i;
	if (!x) return;
	for (i = 0; i < x->nKeys; i++) {
		if (!x->isLeaf) bt_hash(x->part[i].branch, h);
		VH_MIX(*h, x->part[i].key); VH_MIX(*h, (uintptr_t) x->part[i].entry);
	}
	if (!x->isLeaf) bt_hash(x->part[x->nKeys].branch, h);
}
static uint64_t digest(void)
{
	uint64_t h = 1469598103934665603ULL;
	Length i; int k;
	for (k = 0; k < nslot; k++) { VH_MIX(h, (uintptr_t) sptr(&slot[k])); VH_MIX(h, slot[k].szi * 16 + slot[k].code * 2 + slot[k].rooted); VH_MIX(h, (slot[k].parent + 1) * 4 + slot[k].interior * 2 + slot[k].haschild); }
	VH_MIX(h, nslot);
	for (i = 0; i < pgMapSize; i++) VH_MIX(h, pgMap[i]);
	for (k = 0; k < (int) FixedSizeCount; k++) {
		FxMem *f; int n = 0;
		for (f = fixedPieces[k]; f && n < 100000; f = f->next, n++) VH_MIX(h, (uintptr_t) f);
		VH_MIX(h, freeFixedPieces[k]); VH_MIX(h, busyFixedPieces[k]);
	}
	bt_hash(mixedPieces, &h);
	VH_MIX(h, (uintptr_t) mixedFrontier); VH_MIX(h, (uintptr_t) heapEnd); VH_MIX(h, freeMixedBytes); VH_MIX(h, busyMixedBytes);
	return h ? h : 1;
}
/* visited: 56-bit digest + 8-bit remaining depth already explored from that state; returns 1 if this visit is redundant */
static int seen(uint64_t d, int remaining)
{
	uint64_t key = d & ~0xFFULL, i = (d >> 8) & vmask;
	int n;
	if (!key) key = 0x100;
	for (n = 0; n < 64; n++, i = (i + 1) & vmask) {
		uint64_t v = visited[i];
		if (v == 0) {
			if (__sync_bool_compare_and_swap(&visited[i], 0, key | (uint64_t) remaining)) { __sync_fetch_and_add(&sh->states, 1); return 0; }
			v = visited[i];
		}
		if ((v & ~0xFFULL) == key) {
			while ((int)(v & 0xFF) < remaining) {
				if (__sync_bool_compare_and_swap(&visited[i], v, key | (uint64_t) remaining)) return 0;   /* deeper budget: explore again */
				v = visited[i];
			}
			return 1;
		}
	}
	return 0;   /* table crowded: explore anyway (sound) */
}

/* ---- seeds ----------------------------------------------------------------------------------------- */
static void seed_heap(int seed)
{
	int i;
	Pointer keep[64]; int nk = 0;
	if (seed == 0) return;
	/* deterministic mixed workload: 1000 allocations with frees in between */
	for (i = 0; i < 1000; i++) {
		unsigned long sz = sizes[(i * 7 + i / 12) % (NS - 1)];
		Pointer p = stoAlloc(1 + i % 5, sz);
		memset(p, 0x77, sz);
		if (i % 3 == 0 && nk < 64) keep[nk++] = p; else stoFree(p);
		if (nk == 64) { int j; for (j = 0; j < 64; j += 2) stoFree(keep[j]); for (j = 0; j < 32; j++) keep[j] = keep[2 * j + 1]; nk = 32; }
	}
	for (i = 0; i < nk; i++) stoFree(keep[i]);
	if (seed == 2) stoGc();
	if (seed == 3) {
		/* fill up to just below the end of the owned heap with page-sized blocks, keep them rooted in a static */
		static Pointer big[4096]; int nb = 0;
		ULong own0 = stoBytesOwn;
		while (stoBytesOwn == own0 && nb < 4096) { big[nb] = stoAlloc(2, 4000); nb++; }
		if (nb) stoFree(big[--nb]);          /* step back below the boundary */
		for (i = 0; i < nb; i += 2) { stoFree(big[i]); big[i] = 0; }
	}
	stoAudit();
}


/* ---- size sweep: every size, one short history each, from the seed heap (fork per size) ------------ */
static void sweep_add(unsigned long sz, int rooted)
{
	Slot *s = &slot[nslot];
	unsigned char *p;
	int i;
	s->req = sz; s->szi = 0; s->code = 1 + nslot % 5; s->rooted = rooted; s->fill = (unsigned char)(0x41 + 29 * nslot);
	p = (unsigned char *) stoAlloc(s->code, s->req);
	if (!p) fail("alloc-returned-null");
	for (i = 0; i < nslot; i++) { unsigned char *q = sptr(&slot[i]); if (!(p + s->req <= q || q + slot[i].req <= p)) fail("alloc-returned-live-memory"); }
	if (stoSize(p) < sz) fail("size-smaller-than-requested");
	memset(p, s->fill, s->req);
	s->hidden = HIDE(p); s->p = rooted ? p : 0; s->parent = -1; s->interior = 0; s->haschild = 0;
	nslot++;
}
static void sweep_one(unsigned long sz)
{
	unsigned long k, common;
	unsigned char *np;
	path[0] = (int) sz; plen = 1;
	sweep_add(sz, 1); check_all();
	sweep_add(4096, 1); check_all();                 /* a neighbour allocated right after */
	sweep_add(sz, 1); check_all();                   /* same size again */
	path[plen++] = -1;
	/* grow the first block a little, then shrink it */
	np = (unsigned char *) stoResize(slot[0].p, sz + 300);
	common = sz;
	for (k = 0; k < common; k++) if (np[k] != slot[0].fill) fail("resize-lost-prefix");
	slot[0].p = np; slot[0].hidden = HIDE(np); slot[0].req = sz + 300; memset(np, slot[0].fill, sz + 300);
	check_all();
	path[plen++] = -2;
	stoFree(slot[1].p); slot[1] = slot[2]; memset(&slot[2], 0, sizeof(Slot)); nslot = 2;
	check_all();
	stoGc();
	check_all();
	path[plen++] = -3;
	sweep_add(sz > 8 ? sz - 7 : sz, 1); check_all();
}

/* ---- explorer --------------------------------------------------------------------------------------- */
static int shard = 0, nshards = 1;
static void explore(int remaining, int level)
{
	int op, n = nops();
	long ctr = 0;
	if (remaining == 0) return;
	for (op = 0; op < n; op++) {
		pid_t pid; int st;
		if (!enabled(op)) continue;
		if (level == 1 && (ctr++ % nshards) != shard) continue;
		pid = fork();
		if (pid < 0) { perror("fork"); _exit(4); }
		if (pid == 0) {
			prctl(PR_SET_PDEATHSIG, SIGKILL);
			path[plen++] = op;
			apply(op);
			__sync_fetch_and_add(&sh->transitions, 1);
			if (plen > sh->maxdepth) sh->maxdepth = plen;
			if (!seen(digest(), remaining - 1)) explore(remaining - 1, level + 1);
			else __sync_fetch_and_add(&sh->revisits, 1);
			_exit(0);
		}
		while (waitpid(pid, &st, 0) < 0) ;
		if (WIFSIGNALED(st)) { path[plen++] = op; fail("child-killed"); }
		/* a child that reported a violation already printed it; keep exploring siblings */
	}
}

int main(int argc, char **argv)
{
	const char *mode;
	if (argc < 5) { fprintf(stderr, "usage\n"); return 2; }
	mode = argv[1];
	osInit();
	stoCtl(StoCtl_GcLevel, StoCtl_GcLevel_Demand);
	stoSetHandler((StoErrorFun) sto_err);
	signal(SIGSEGV, on_crash); signal(SIGABRT, on_crash); signal(SIGBUS, on_crash); signal(SIGFPE, on_crash);
	stoFree(stoAlloc(1, 100));
	if (!strcmp(mode, "dfs")) {
		int depth = atoi(argv[2]), fd;
		size_t vsz;
		maxslots = atoi(argv[3]); seedno = atoi(argv[4]);
		shard = atoi(argv[5]); nshards = atoi(argv[6]);
		vsz = (size_t) 1 << 27;               /* 16M entries */
		fd = open(argv[7], O_RDWR | O_CREAT, 0600);
		if (fd < 0 || ftruncate(fd, vsz + 4096) < 0) { perror("shm"); return 4; }
		sh = mmap(0, vsz + 4096, PROT_READ | PROT_WRITE, MAP_SHARED, fd, 0);
		if (sh == MAP_FAILED) { perror("mmap"); return 4; }
		visited = (volatile uint64_t *)((char *) sh + 4096); vmask = (vsz / 8) - 1;
		seed_heap(seedno);
		check_all();
		if (shard == 0) seen(digest(), depth);
		explore(depth, 0);
		printf("STAT mode=dfs seed=%d depth=%d shard=%d done\n", seedno, depth, shard);
		return 0;
	}
	if (!strcmp(mode, "sweep")) {
		/* c10 sweep <lo> <hi> <seed> : every size in [lo,hi) below 1200, then multiples of 256 and their neighbours */
		unsigned long lo = strtoul(argv[2], 0, 0), hi = strtoul(argv[3], 0, 0), sz;
		long n = 0, bad = 0;
		seedno = atoi(argv[4]);
		maxslots = MAXSLOT;
		seed_heap(seedno);
		for (sz = lo; sz < hi; sz++) {
			pid_t pid; int st;
			if (sz > 1200 && (sz % 256) > 1 && (sz % 256) != 255) continue;
			pid = fork();
			if (pid == 0) { prctl(PR_SET_PDEATHSIG, SIGKILL); sweep_one(sz); _exit(0); }
			while (waitpid(pid, &st, 0) < 0) ;
			n++;
			if (!WIFEXITED(st) || WEXITSTATUS(st) != 0) { bad++; if (!WIFEXITED(st)) printf("VIOL kind=child-killed seed=%d maxslots=0 ops=%lu\n", seedno, sz); }
		}
		printf("STAT mode=sweep seed=%d sizes=%ld bad=%ld\n", seedno, n, bad);
		return 0;
	}
	if (!strcmp(mode, "walk")) {
		long steps = atol(argv[2]), t, done = 0, skipped = 0;
		int n, a = 0, b = 0, c = 0, ph = 0;
		maxslots = atoi(argv[3]); seedno = atoi(argv[4]);
		seed_heap(seedno);
		n = nops();
		/* enumerate op triples (a,b,c) in order, executing a then b then c; disabled ops are skipped */
		for (t = 0; t < steps; t++) {
			int op;
			if (ph == 0) {
				/* make room so that the triple is not disabled wholesale: free the oldest rooted blocks (or collect) until two slots are open */
				int guard = 0;
				while (nslot > maxslots - 2 && guard++ < 2 * MAXSLOT) {
					int k, f = -1;
					for (k = 0; k < nslot; k++) if (slot[k].rooted) { f = k; break; }
					op = f >= 0 ? OP_FREE + f : OP_GC;
					if (plen < 60) path[plen++] = op; else { memmove(path, path + 1, 59 * sizeof(int)); path[59] = op; }
					apply(op);
					done++;
				}
			}
			op = ph == 0 ? a : ph == 1 ? b : c;
			if (++ph == 3) { ph = 0; if (++c == n) { c = 0; if (++b == n) { b = 0; if (++a == n) a = 0; } } }
			if (!enabled(op)) { skipped++; continue; }
			if (plen < 60) path[plen++] = op; else { memmove(path, path + 1, 59 * sizeof(int)); path[59] = op; }
			apply(op);
			done++;
		}
		printf("STAT mode=walk seed=%d steps=%ld executed=%ld skipped=%ld own=%lu\n", seedno, steps, done, skipped, stoBytesOwn);
		return 0;
	}
	if (!strcmp(mode, "replay")) {
		int ops[64], n, i;
		maxslots = atoi(argv[2]); seedno = atoi(argv[3]);
		n = vh_parse(argv[4], ops, 64);
		seed_heap(seedno);
		check_all();
		for (i = 0; i < n; i++) {
			if (!enabled(ops[i])) { printf("REPLAY op %d (%d) not enabled\n", i, ops[i]); return 2; }
			path[plen++] = ops[i];
			apply(ops[i]);
		}
		printf("REPLAY ok\n");
		return 0;
	}
	return 2;
}
