/* C11: big-integer arithmetic, results dumped for comparison with Python ints.
 * Values are described by recipes (so the oracle computes them independently):
 *   P s k d   = (-1)^s * (2^k + d)
 *   D s n p   = (-1)^s * digit pattern p over n 16-bit places
 * Output numbers are signed hex built from the raw places (independent of bintToString).
 */
#include "axlgen.h"
#include "bigint.h"
#include "store.h"
#include "opsys.h"
#include "foam_c.h"
#include <signal.h>
#include <unistd.h>
#include "vh.h"

extern FiBInt fiBIntGcd(FiBInt, FiBInt);
extern FiBInt fiBIntSIPower(FiBInt, FiSInt);
extern FiBInt fiBIntBIPower(FiBInt, FiBInt);
extern FiBInt fiBIntPowerMod(FiBInt, FiBInt, FiBInt);
extern FiSInt fiBIntToSInt(FiBInt);
extern FiBInt fiSIntToBInt(FiSInt);
extern FiBInt fiBIntMod(FiBInt, FiBInt);
extern FiBInt fiBIntQuo(FiBInt, FiBInt);
extern FiBInt fiBIntRem(FiBInt, FiBInt);

static char where[256] = "start";
static void on_crash(int sig)
{
	char buf[400];
	snprintf(buf, sizeof buf, "\nCRASH signal=%d at %s\n", sig, where);
	if (write(1, buf, strlen(buf))) {}
	_exit(9);
}

static void puthex(BInt b)
{
	int n, i;
	U16 *d;
	char buf[16384];
	int o = 0;
	if (bintIsNeg(b)) buf[o++] = '-';
	bintToPlacevS(b, &n, &d);
	while (n > 1 && d[n - 1] == 0) n--;
	if (n * 4 + 4 > (int) sizeof buf) { printf(" TOOBIG"); bintReleasePlacevS(d); return; }
	o += sprintf(buf + o, "%x", (unsigned) d[n - 1]);
	for (i = n - 2; i >= 0; i--) o += sprintf(buf + o, "%04x", (unsigned) d[i]);
	buf[o] = 0;
	putchar(' ');
	fputs(buf, stdout);
	bintReleasePlacevS(d);
}

static BInt *V; static int nV = 0;
static char (*Vdesc)[40];

static BInt mkP(int neg, int k, int d)
{
	BInt v = bintShift(bint1, k), dd = bintNew(d), r = bintPlus(v, dd);
	if (neg) r = bintNegate(r);
	return r;
}
static BInt mkD(int neg, int n, int p)
{
	U16 pl[64];
	int i;
	for (i = 0; i < n; i++) {
		switch (p) {
		case 0: pl[i] = 0xFFFF; break;
		case 1: pl[i] = (i == n - 1) ? 0x8000 : 0; break;
		case 2: pl[i] = (i & 1) ? 0x5555 : 0xAAAA; break;
		case 3: pl[i] = (i & 2) ? 0x0000 : 0xFFFF; break;
		default: pl[i] = 1;
		}
	}
	if (pl[n - 1] == 0) pl[n - 1] = 1;
	pl[n] = 0; pl[n + 1] = 0;
	return bintFrPlacevS(neg, n, pl);
}
static void build(int K)
{
	int s, k, d, n, p;
	static const int bigk[] = { 255, 256, 257, 511, 512, 513, 1023, 1024, 1025, 2047, 2048, 4000 };
	V = malloc(sizeof(BInt) * (2 * (K + 1) * 5 + 400));
	Vdesc = malloc(40 * (2 * (K + 1) * 5 + 400));
	for (s = 0; s < 2; s++) for (k = 0; k <= K; k++) for (d = -2; d <= 2; d++) {
		sprintf(Vdesc[nV], "P %d %d %d", s, k, d); V[nV++] = mkP(s, k, d);
	}
	if (K >= 200) for (s = 0; s < 2; s++) for (k = 0; k < 12; k++) for (d = -1; d <= 1; d++) {
		sprintf(Vdesc[nV], "P %d %d %d", s, bigk[k], d); V[nV++] = mkP(s, bigk[k], d);
	}
	for (s = 0; s < 2; s++) for (n = 1; n <= 10; n++) for (p = 0; p < 4; p++) {
		sprintf(Vdesc[nV], "D %d %d %d", s, n, p); V[nV++] = mkD(s, n, p);
	}
}

int main(int argc, char **argv)
{
	const char *mode;
	int K, shard = 0, nshards = 1, i, j;
	static char obuf[1 << 20];
	if (argc < 3) return 2;
	setvbuf(stdout, obuf, _IOFBF, sizeof obuf);
	osInit();
	signal(SIGABRT, on_crash); signal(SIGSEGV, on_crash); signal(SIGBUS, on_crash); signal(SIGFPE, on_crash);
	mode = argv[1]; K = atoi(argv[2]);
	if (argc > 4) { shard = atoi(argv[3]); nshards = atoi(argv[4]); }
	build(K);

	if (!strcmp(mode, "vals")) {
		/* recipe, decimal text, hex, length, predicates, small conversion, copy, negate, abs */
		for (i = 0; i < nV; i++) {
			BInt a = V[i], c;
			String s = bintToString(a);
			sprintf(where, "vals %s", Vdesc[i]);
			printf("V %d %s %s", i, Vdesc[i], s);
			puthex(a);
			printf(" %lu %d %d %d %d", (unsigned long) bintLength(a), !!bintIsZero(a), !!bintIsNeg(a), !!bintIsPos(a), !!bintIsSmall(a));
			if (bintIsSmall(a)) printf(" %ld", bintSmall(a)); else printf(" -");
			printf(" %ld", (long) fiBIntToSInt((FiBInt) a));
			c = bintCopy(a); puthex(c);
			puthex(bintNegate(a)); puthex(bintAbs(a));
			c = bintFrString(s); puthex(c);
			printf(" %d", bintStringSize(a));
			printf("\n");
		}
		/* machine integers -> BInt */
		{
			static const long ml[] = { 0, 1, -1, 2, -2, 536870911L, 536870912L, 536870913L, -536870911L, -536870912L, -536870913L,
				1073741823L, 1073741824L, -1073741824L, -1073741825L, 2147483647L, 2147483648L, -2147483648L, -2147483649L,
				4294967295L, 4294967296L, 4294967297L, 4611686018427387903L, 4611686018427387904L, -4611686018427387904L,
				-4611686018427387905L, 9223372036854775807L, -9223372036854775807L, (-9223372036854775807L - 1) };
			for (i = 0; i < (int)(sizeof ml / sizeof ml[0]); i++) {
				sprintf(where, "long %ld", ml[i]);
				printf("L %ld", ml[i]); puthex(bintNew(ml[i])); puthex((BInt) fiSIntToBInt((FiSInt) ml[i]));
				printf(" %ld %s\n", (long) fiBIntToSInt((FiBInt) bintNew(ml[i])), bintToString(bintNew(ml[i])));
			}
		}
	}
	else if (!strcmp(mode, "pairs")) {
		for (i = 0; i < nV; i++) {
			if (i % nshards != shard) continue;
			for (j = 0; j < nV; j++) {
				BInt a = V[i], b = V[j], r = 0, q;
				sprintf(where, "pairs %s | %s", Vdesc[i], Vdesc[j]);
				printf("%d %d", i, j);
				puthex(bintPlus(a, b)); puthex(bintMinus(a, b)); puthex(bintTimes(a, b));
				if (!bintIsZero(b)) {
					q = bintDivide(&r, a, b); puthex(q); puthex(r); puthex(bintMod(a, b));
					puthex((BInt) fiBIntQuo((FiBInt) a, (FiBInt) b)); puthex((BInt) fiBIntRem((FiBInt) a, (FiBInt) b));
				}
				else printf(" - - - - -");
				puthex((BInt) fiBIntGcd((FiBInt) a, (FiBInt) b)); puthex((BInt) fiBIntGcd((FiBInt) b, (FiBInt) a));
				printf(" %d %d %d\n", !!bintLT(a, b), !!bintEQ(a, b), !!bintGT(a, b));
			}
		}
	}
	else if (!strcmp(mode, "shifts")) {
		static const int ns[] = { 0, 1, 2, 3, 15, 16, 17, 31, 32, 33, 47, 48, 63, 64, 65, 95, 96, 97, 127, 128, 129, 130, 199, 200 };
		for (i = 0; i < nV; i++) {
			if (i % nshards != shard) continue;
			for (j = 0; j < (int)(sizeof ns / sizeof ns[0]); j++) {
				BInt a = V[i]; int n = ns[j];
				sprintf(where, "shifts %s by %d", Vdesc[i], n);
				printf("%d %d", i, n);
				puthex(bintShift(a, n)); puthex(bintShift(a, -n)); printf(" 0");
				printf(" %d\n", !!bintBit(a, (Length) n));
			}
		}
	}
	else if (!strcmp(mode, "power")) {
		static const long es[] = { 0, 1, 2, 3, 4, 5, 7, 8, 9, 15, 16, 17, 31, 32, 33, 63, 64, 65 };
		for (i = 0; i < nV; i++) {
			if (i % nshards != shard) continue;
			if (bintLength(V[i]) > 40) continue;
			for (j = 0; j < (int)(sizeof es / sizeof es[0]); j++) {
				if (bintLength(V[i]) * es[j] > 2600) continue;
				sprintf(where, "power %s ^ %ld", Vdesc[i], es[j]);
				printf("%d %ld", i, es[j]);
				puthex((BInt) fiBIntSIPower((FiBInt) V[i], (FiSInt) es[j]));
				puthex((BInt) fiBIntBIPower((FiBInt) V[i], (FiBInt) bintNew(es[j])));
				printf("\n");
			}
		}
	}
	else if (!strcmp(mode, "powmod")) {
		/* base index, exponent index, modulus index taken from stdin lines: "a e m" */
		int a, e, m;
		while (scanf("%d %d %d", &a, &e, &m) == 3) {
			sprintf(where, "powmod %s ^ %s mod %s", Vdesc[a], Vdesc[e], Vdesc[m]);
			printf("%d %d %d", a, e, m);
			puthex((BInt) fiBIntPowerMod((FiBInt) V[a], (FiBInt) V[e], (FiBInt) V[m]));
			printf("\n");
		}
	}
	else if (!strcmp(mode, "scan")) {
		/* strings on stdin, one per line: print value scanned by the radix scanner and by bintFrString (decimal only) */
		static char line[8192];
		while (fgets(line, sizeof line, stdin)) {
			String end = 0; BInt r;
			size_t l = strlen(line);
			if (l && line[l - 1] == '\n') line[--l] = 0;
			snprintf(where, sizeof where, "scan %.200s", line);
			r = bintRadixScanFrString(line, &end);
			printf("S"); puthex(r); printf(" %d", (int)(end - line));
			end = 0;
			r = bintScanFrString(line, &end); puthex(r); printf(" %d\n", (int)(end - line));
		}
	}
	else if (!strcmp(mode, "wrap")) {
		/* the runtime wrapper layer of foam_i.c (what compiled programs and the interpreter call) */
		for (i = 0; i < nV; i++) {
			BInt a = V[i];
			int n; U16 *d; U16 pl[300]; union { double f; unsigned long u; } cv;
			if (i % nshards != shard) continue;
			sprintf(where, "wrap1 %s", Vdesc[i]);
			printf("U %d %ld %d %d %d %d", i, (long) fiBIntLength((FiBInt) a), !!fiBIntIsSingle((FiBInt) a),
			       !!fiBIntIsZero((FiBInt) a), !!fiBIntIsNeg((FiBInt) a), !!fiBIntIsPos((FiBInt) a));
			puthex((BInt) fiBIntNegate((FiBInt) a));
			/* literal construction used by generated C: places -> value (with two spare zero places, as genc emits) */
			bintToPlacevS(a, &n, &d);
			if (n < 290) {
				int k; for (k = 0; k < n; k++) pl[k] = d[k]; pl[n] = 0; pl[n + 1] = 0;
				puthex((BInt) fiBIntFrPlacev(bintIsNeg(a), (unsigned long) n, pl));
			} else printf(" -");
			bintReleasePlacevS(d);
			printf(" -");
			if (bintLength(a) <= 1100) { cv.f = (double) fiBIntToDFlo((FiBInt) a); printf(" %lx", cv.u); } else printf(" -");
			printf(" %s\n", fiBIntToString((FiBInt) a));
			for (j = 0; j < nV; j++) {
				BInt b = V[j], c = V[(3 * i + 5 * j + 1) % nV];
				FiBInt q = 0, r = 0;
				sprintf(where, "wrap2 %s | %s", Vdesc[i], Vdesc[j]);
				printf("%d %d", i, j);
				puthex((BInt) fiBIntPlus((FiBInt) a, (FiBInt) b)); puthex((BInt) fiBIntMinus((FiBInt) a, (FiBInt) b));
				puthex((BInt) fiBIntTimes((FiBInt) a, (FiBInt) b));
				puthex((BInt) fiBIntTimesPlus((FiBInt) a, (FiBInt) b, (FiBInt) c));
				if (!bintIsZero(b)) { fiBIntDivide((FiBInt) a, (FiBInt) b, &q, &r); puthex((BInt) q); puthex((BInt) r); }
				else printf(" - -");
				printf(" %d %d %d %d\n", !!fiBIntEQ((FiBInt) a, (FiBInt) b), !!fiBIntNE((FiBInt) a, (FiBInt) b),
				       !!fiBIntLT((FiBInt) a, (FiBInt) b), !!fiBIntLE((FiBInt) a, (FiBInt) b));
			}
		}
	}
	else if (!strcmp(mode, "wshift")) {
		/* every shift count 0..130 (and the digit multiples up to 400) through the runtime wrappers */
		for (i = 0; i < nV; i++) {
			int n;
			if (i % nshards != shard) continue;
			for (n = 0; n <= 400; n = (n < 130 ? n + 1 : n + 15)) {
				BInt a = V[i];
				sprintf(where, "wshift %s by %d", Vdesc[i], n);
				printf("%d %d", i, n);
				puthex((BInt) fiBIntShiftUp((FiBInt) a, (FiSInt) n)); puthex((BInt) fiBIntShiftDn((FiBInt) a, (FiSInt) n));
				printf(" %d\n", !!fiBIntBit((FiBInt) a, (FiSInt) n));
			}
		}
	}
	else if (!strcmp(mode, "dword")) {
		static const ULong W[] = { 0UL, 1UL, 2UL, 3UL, 0x7FFFFFFFUL, 0x80000000UL, 0xFFFFFFFFUL, 0x100000000UL, 0x100000001UL,
			0x7FFFFFFFFFFFFFFFUL, 0x8000000000000000UL, 0x8000000000000001UL, 0xFFFFFFFFFFFFFFFEUL, 0xFFFFFFFFFFFFFFFFUL,
			0xAAAAAAAAAAAAAAAAUL, 0x5555555555555555UL, 0xFFFFFFFF00000000UL, 0x00000000FFFFFFFEUL, 1000000000000000000UL,
			0xDEADBEEFCAFEBABEUL };
		int n = sizeof W / sizeof W[0], a, b, c, d;
		for (a = 0; a < n; a++) for (b = 0; b < n; b++) {
			ULong h, l; int gt;
			sprintf(where, "dword times %d %d", a, b);
			xxTimesDouble(&h, &l, W[a], W[b]);
			printf("T %lx %lx %lx %lx\n", W[a], W[b], h, l);
			for (c = 0; c < n; c++) {
				ULong qh, ql, r, ko, rr;
				if (W[c] != 0) {
					/* quotient must fit two words: always true */
					sprintf(where, "dword divide %d %d %d", a, b, c);
					xxDivideDouble(&qh, &ql, &r, W[a], W[b], W[c]);
					printf("D %lx %lx %lx %lx %lx %lx %lx\n", W[a], W[b], W[c], qh, ql, r, xxModDouble(W[a], W[b], W[c]));
				}
				if (W[c] <= 1) {
					xxPlusStep(&ko, &rr, W[a], W[b], W[c]);
					printf("P %lx %lx %lx %lx %lx\n", W[a], W[b], W[c], ko, rr);
				}
				xxTestGtDouble(&gt, W[a], W[b], W[c], W[(a + b + c) % n]);
				printf("G %lx %lx %lx %lx %d\n", W[a], W[b], W[c], W[(a + b + c) % n], gt);
				for (d = 0; d < n; d++) {
					xxTimesStep(&ko, &rr, W[a], W[b], W[c], W[d]);
					printf("M %lx %lx %lx %lx %lx %lx\n", W[a], W[b], W[c], W[d], ko, rr);
				}
			}
		}
	}
	else return 2;
	printf("END\n");
	fflush(stdout);
	return 0;
}
