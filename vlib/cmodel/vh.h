/* Shared helpers for the module harnesses: violation reporting, statistics, odometer. */
#ifndef VH_H
#define VH_H
#include <stdio.h>
#include <stdlib.h>
#include <string.h>
#include <stdarg.h>

static long vh_viol = 0, vh_seqs = 0, vh_steps = 0;
static int  vh_maxviol = 20;
static unsigned long long vh_outcomes_hash[1 << 16];
static long vh_outcomes = 0;

/* record a distinct observed outcome (hash); counts distinct ones (approx., 64k-entry filter) */
static void vh_outcome(unsigned long long h)
{
	unsigned i = (unsigned)(h * 0x9E3779B97F4A7C15ULL >> 48);
	int n;
	if (!h) h = 1;
	for (n = 0; n < 16; n++, i = (i + 1) & 0xffff) {
		if (vh_outcomes_hash[i] == h) return;
		if (!vh_outcomes_hash[i]) { vh_outcomes_hash[i] = h; vh_outcomes++; return; }
	}
}

static void vh_violation(const char *fmt, ...)
{
	va_list ap;
	vh_viol++;
	if (vh_viol > vh_maxviol) return;
	printf("VIOL ");
	va_start(ap, fmt);
	vprintf(fmt, ap);
	va_end(ap);
	printf("\n");
	fflush(stdout);
}

static void vh_stats(const char *mode)
{
	printf("STAT mode=%s sequences=%ld steps=%ld outcomes=%ld violations=%ld\n",
	       mode, vh_seqs, vh_steps, vh_outcomes, vh_viol);
	fflush(stdout);
}

/* print an op sequence */
static void vh_ops(char *buf, size_t n, const int *ops, int len)
{
	int i; size_t o = 0;
	buf[0] = 0;
	for (i = 0; i < len && o + 8 < n; i++) o += snprintf(buf + o, n - o, "%s%d", i ? "," : "", ops[i]);
}

/* parse "a,b,c" */
static int vh_parse(const char *s, int *ops, int max)
{
	int n = 0;
	while (*s && n < max) {
		ops[n++] = (int) strtol(s, (char **) &s, 10);
		if (*s == ',') s++;
	}
	return n;
}

#define VH_MIX(h, v) ((h) = ((h) ^ (unsigned long long)(v)) * 0x100000001B3ULL)
#endif
