/* C19: floating-point values through the portable encoding and dissemble/assemble.
 * sf <lo> <hi> <stride>: single-precision bit patterns lo, lo+stride, ... < hi   (stride 1 = all)
 * sfq <shard> <nshards>: all signs x exponents x 4096 boundary fractions
 * df <shard> <nshards>:  all signs x exponents x boundary fractions
 */
#include "axlgen.h"
#include "xfloat.h"
#include "buffer.h"
#include "store.h"
#include "opsys.h"
#include "foam_c.h"
#include <stdint.h>
#include <math.h>
#include "vh.h"

extern void   fiSFloDissemble(FiSFlo, FiBool *, FiSInt *, FiWord *);
extern FiSFlo fiSFloAssemble(FiBool, FiSInt, FiWord);
extern void   fiDFloDissemble(FiDFlo, FiBool *, FiSInt *, FiWord *, FiWord *);
extern FiDFlo fiDFloAssemble(FiBool, FiSInt, FiWord, FiWord);

static long nchk = 0, bad[8];
static const char *route[8] = { "xsf-encode/decode", "sf-dissemble/assemble", "fiSFlo-dissemble/assemble", "buffer-SFloat",
                                "xdf-encode/decode", "df-dissemble/assemble", "fiDFlo-dissemble/assemble", "buffer-DFloat" };
static Buffer gbuf;

static void fail32(int r, uint32_t b, uint32_t c)
{
	if (bad[r]++ < 5) printf("VIOL route=%s pattern=%08x back=%08x\n", route[r], b, c);
}
static void fail64(int r, uint64_t b, uint64_t c)
{
	if (bad[r]++ < 5) printf("VIOL route=%s pattern=%016llx back=%016llx\n", route[r], (unsigned long long) b, (unsigned long long) c);
}

static void one32(uint32_t b)
{
	uint32_t c; float f, g; XSFloat x;
	Bool sign; int e; UByte fr[16]; Bool imp;
	FiBool fs; FiSInt fe; FiWord fw;
	int isn;
	memcpy(&f, &b, 4);
	isn = isnan(f);
	memset(&x, 0, sizeof x);
	xsfFrNative(&x, &f); g = 0; xsfToNative(&x, &g); memcpy(&c, &g, 4);
	if (c != b && !(isn && isnan(g))) fail32(0, b, c);
	memset(fr, 0, sizeof fr);
	sfDissemble(&f, &sign, &e, fr, &imp); g = 0; sfAssemble(&g, sign, e, fr); memcpy(&c, &g, 4);
	if (c != b && !(isn && isnan(g))) fail32(1, b, c);
	if ((sign != 0) != (b >> 31) && !isn) fail32(1, b, c);
	fw = 0;
	fiSFloDissemble(f, &fs, &fe, &fw); g = fiSFloAssemble(fs, fe, fw); memcpy(&c, &g, 4);
	if (c != b && !(isn && isnan(g))) fail32(2, b, c);
	bufStart(gbuf); bufWrSFloat(gbuf, f); bufStart(gbuf); g = bufRdSFloat(gbuf); memcpy(&c, &g, 4);
	if (c != b && !(isn && isnan(g))) fail32(3, b, c);
	nchk += 4;
}
static void one64(uint64_t b)
{
	uint64_t c; double f, g; XDFloat x;
	Bool sign; int e; UByte fr[32]; Bool imp;
	FiBool fs; FiSInt fe; FiWord w0, w1;
	int isn;
	memcpy(&f, &b, 8);
	isn = isnan(f);
	memset(&x, 0, sizeof x);
	xdfFrNative(&x, &f); g = 0; xdfToNative(&x, &g); memcpy(&c, &g, 8);
	if (c != b && !(isn && isnan(g))) fail64(4, b, c);
	memset(fr, 0, sizeof fr);
	dfDissemble(&f, &sign, &e, fr, &imp); g = 0; dfAssemble(&g, sign, e, fr); memcpy(&c, &g, 8);
	if (c != b && !(isn && isnan(g))) fail64(5, b, c);
	if ((sign != 0) != (int)(b >> 63) && !isn) fail64(5, b, c);
	w0 = w1 = 0;
	fiDFloDissemble(f, &fs, &fe, &w0, &w1); g = fiDFloAssemble(fs, fe, w0, w1); memcpy(&c, &g, 8);
	if (c != b && !(isn && isnan(g))) fail64(6, b, c);
	bufStart(gbuf); bufWrDFloat(gbuf, f); bufStart(gbuf); g = bufRdDFloat(gbuf); memcpy(&c, &g, 8);
	if (c != b && !(isn && isnan(g))) fail64(7, b, c);
	nchk += 4;
}

int main(int argc, char **argv)
{
	const char *mode = argv[1];
	long long npat = 0;
	int r, viol = 0;
	if (argc < 4) return 2;
	osInit();
	gbuf = bufNew();
	if (!strcmp(mode, "sf")) {
		uint64_t lo = strtoull(argv[2], 0, 0), hi = strtoull(argv[3], 0, 0), st = argc > 4 ? strtoull(argv[4], 0, 0) : 1, i;
		for (i = lo; i < hi; i += st) { one32((uint32_t) i); npat++; }
	}
	else if (!strcmp(mode, "sfq")) {
		int shard = atoi(argv[2]), n = atoi(argv[3]), s, e, k;
		for (s = 0; s < 2; s++) for (e = 0; e < 256; e++) {
			if (e % n != shard) continue;
			for (k = 0; k < 2048; k++) {
				one32(((uint32_t) s << 31) | ((uint32_t) e << 23) | (uint32_t) k);
				one32(((uint32_t) s << 31) | ((uint32_t) e << 23) | (0x7FFFFFu - (uint32_t) k));
				npat += 2;
			}
			for (k = 0; k < 23; k++) {
				one32(((uint32_t) s << 31) | ((uint32_t) e << 23) | (1u << k));
				one32(((uint32_t) s << 31) | ((uint32_t) e << 23) | (0x7FFFFFu ^ (1u << k)));
				npat += 2;
			}
			one32(((uint32_t) s << 31) | ((uint32_t) e << 23) | 0x2AAAAAu);
			one32(((uint32_t) s << 31) | ((uint32_t) e << 23) | 0x555555u);
			npat += 2;
		}
	}
	else if (!strcmp(mode, "df")) {
		int shard = atoi(argv[2]), n = atoi(argv[3]), s, e, k;
		const uint64_t FM = (1ULL << 52) - 1;
		for (s = 0; s < 2; s++) for (e = 0; e < 2048; e++) {
			uint64_t hdr = ((uint64_t) s << 63) | ((uint64_t) e << 52);
			if (e % n != shard) continue;
			for (k = 0; k < 52; k++) {
				one64(hdr | (1ULL << k)); one64(hdr | (FM ^ (1ULL << k))); one64(hdr | (FM >> k)); one64(hdr | ((FM << k) & FM));
				npat += 4;
			}
			for (k = 0; k < 64; k++) { one64(hdr | (uint64_t) k); one64(hdr | (FM - (uint64_t) k)); npat += 2; }
			one64(hdr); one64(hdr | FM); one64(hdr | 0xAAAAAAAAAAAAAULL); one64(hdr | 0x5555555555555ULL);
			one64(hdr | 0x00000FFFFFFFFULL); one64(hdr | 0xFFFFF00000000ULL); one64(hdr | 0x0000100000000ULL); one64(hdr | 0x00000FFFFFFFEULL);
			npat += 8;
		}
	}
	else return 2;
	for (r = 0; r < 8; r++) if (bad[r]) { viol = 1; printf("BAD route=%s count=%ld\n", route[r], bad[r]); }
	printf("STAT mode=%s patterns=%lld checks=%ld violations=%d\n", mode, npat, nchk, viol);
	return viol;
}
