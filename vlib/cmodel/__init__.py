"""Compile C harnesses against the freshly built compiler objects."""
import os, hashlib, subprocess
from vlib import build as _b

HERE = os.path.dirname(os.path.abspath(__file__))


def harness(b, name, extra_cflags=(), link_comp=True, extra_src=(), opt='-O1'):
    """returns path of the compiled harness <name>.c (cached in the build tree)"""
    src = HERE + '/' + name + '.c'
    h = hashlib.sha1()
    for p in [src, HERE + '/vh.h'] + list(extra_src):
        h.update(open(p, 'rb').read())
    h.update(repr((extra_cflags, link_comp, opt)).encode())
    out = '%s/harness/%s-%s' % (b.B, name, h.hexdigest()[:10])
    if os.path.exists(out):
        return out
    os.makedirs(b.B + '/harness', exist_ok=True)
    cmd = ['gcc', opt, '-g', '-w', '-std=gnu99', _b.GUARD] + list(extra_cflags) + \
        ['-I' + b.B + '/src', '-I' + HERE, src] + list(extra_src)
    if link_comp:
        cmd += [b.B + '/libcomp.a']
    cmd += ['-lm', '-o', out + '.tmp']
    p = subprocess.run(cmd, stdout=subprocess.PIPE, stderr=subprocess.STDOUT, text=True)
    if p.returncode != 0:
        raise _b.BuildError('harness %s: %s' % (name, p.stdout[-3000:]))
    os.replace(out + '.tmp', out)
    return out
