/* C20: hash table, B-tree, priority queue, bit vectors, DNF against reference models.
 * Every operation sequence up to the depth bound is replayed on a fresh object of the
 * repository's module (linked from the working tree) and compared step by step with a
 * plain reference model.  usage: c20 <mode> <depth> <seed> <shard> <nshards> | c20 <mode> replay <seed> <ops>
 */
#include "axlgen.h"
#include "table.h"
#include "btree.h"
#include "priq.h"
#include "bitv.h"
#include "dnf.h"
#include "store.h"
#include "opsys.h"
#include <signal.h>
#include <unistd.h>
#include "vh.h"

static int cur[64], curlen = 0, curseed = 0;
static const char *curmode = "?";
static int shard = 0, nshards = 1;
static long shardctr = 0;

static void on_crash(int sig)
{
	char buf[400];
	char ob[256];
	vh_ops(ob, sizeof ob, cur, curlen);
	snprintf(buf, sizeof buf, "\nVIOL mode=%s kind=crash signal=%d seed=%d ops=%s\n", curmode, sig, curseed, ob);
	if (write(1, buf, strlen(buf))) {}
	_exit(9);
}

/* ======================================================================== table */
#define TK 4
#define TPRE 48
static Hash thash(TblKey k)
{
	long v = (long) k - 1;
	if (v < TK) return (v & 1) ? 7 : 0;     /* two colliding hash values, equal pairwise */
	return (Hash) v;
}
static Bool teq(TblKey a, TblKey b) { return a == b; }

typedef struct { int present[TK + TPRE]; long val[TK + TPRE]; int n; } TModel;

static int tbl_check(Table t, TModel *m, const char *what)
{
	TableIterator it;
	int seen[TK + TPRE];
	int i, cnt = 0;
	memset(seen, 0, sizeof seen);
	if ((int) tblSize(t) != m->n) {
		vh_violation("mode=table kind=size after=%s got=%d want=%d", what, (int) tblSize(t), m->n);
		return 0;
	}
	for (tblITER(it, t); tblMORE(it); tblSTEP(it)) {
		long k = (long) tblKEY(it) - 1;
		long ki = k < TK ? k : k - 100 + TK;
		if (ki < 0 || ki >= TK + TPRE || !m->present[ki]) {
			vh_violation("mode=table kind=iter-ghost after=%s key=%ld", what, k); return 0;
		}
		if (seen[ki]++) { vh_violation("mode=table kind=iter-twice after=%s key=%ld", what, k); return 0; }
		if ((long) tblELT(it) != m->val[ki]) {
			vh_violation("mode=table kind=iter-value after=%s key=%ld got=%ld want=%ld", what, k, (long) tblELT(it), m->val[ki]);
			return 0;
		}
		cnt++;
	}
	if (cnt != m->n) { vh_violation("mode=table kind=iter-count after=%s got=%d want=%d", what, cnt, m->n); return 0; }
	(void) i;
	return 1;
}

#define T_NOPS 16
static TblElt tmap_inc(TblElt e) { return (TblElt)((long) e + 1); }
/* returns 0 on violation */
static int tbl_run(int seed, const int *ops, int len, int checklast_only, unsigned long long *ph)
{
	Table t = tblNew((TblHashFun) thash, (TblEqFun) teq);
	TModel m;
	int i, ok = 1, extra = 0;
	unsigned long long h = 1469598103934665603ULL;
	memset(&m, 0, sizeof m);
	for (i = 0; i < seed; i++) {
		tblSetElt(t, (TblKey)(long)(100 + i + 1), (TblElt)(long)(1000 + i));
		m.present[TK + i] = 1; m.val[TK + i] = 1000 + i; m.n++;
	}
	for (i = 0; i < len && ok; i++) {
		int op = ops[i];
		char what[32];
		snprintf(what, sizeof what, "step%d:op%d", i, op);
		vh_steps++;
		if (op < 4) {
			long v = 10 * (i + 1) + op;
			TblElt r = tblSetElt(t, (TblKey)(long)(op + 1), (TblElt) v);
			if ((long) r != v) { vh_violation("mode=table kind=set-result %s", what); ok = 0; }
			if (!m.present[op]) { m.present[op] = 1; m.n++; }
			m.val[op] = v;
		}
		else if (op < 8) {
			int k = op - 4;
			long r = (long) tblElt(t, (TblKey)(long)(k + 1), (TblElt)(long) -1);
			long want = m.present[k] ? m.val[k] : -1;
			VH_MIX(h, r);
			if (r != want) { vh_violation("mode=table kind=get %s got=%ld want=%ld", what, r, want); ok = 0; }
		}
		else if (op < 12) {
			int k = op - 8;
			Table r = tblDrop(t, (TblKey)(long)(k + 1));
			if (r != t) { vh_violation("mode=table kind=drop-result %s", what); ok = 0; }
			if (m.present[k]) { m.present[k] = 0; m.n--; }
		}
		else if (op == 12) {
			Table c = tblCopy(t);
			if (!tbl_check(c, &m, "copy(new)")) ok = 0;
			if (ok && !tbl_check(t, &m, "copy(old)")) ok = 0;
			tblFree(t);
			t = c;
		}
		else if (op == 13) {         /* drop a pre-filled key (highest present) */
			int j;
			for (j = TPRE - 1; j >= 0 && !m.present[TK + j]; j--) ;
			if (j >= 0) {
				tblDrop(t, (TblKey)(long)(100 + j + 1));
				m.present[TK + j] = 0; m.n--;
			}
		}
		else if (op == 14) {         /* add a fresh spread key */
			int j = seed + extra;
			if (j < TPRE) {
				tblSetElt(t, (TblKey)(long)(100 + j + 1), (TblElt)(long)(1000 + j));
				m.present[TK + j] = 1; m.val[TK + j] = 1000 + j; m.n++;
				extra++;
			}
		}
		else if (op == 15) {         /* map over all entries in place: each entry exactly once, colliding chains included */
			int j;
			Table r = tblNMap((TblMapEltFun) tmap_inc, t);
			if (r != t) { vh_violation("mode=table kind=nmap-result %s", what); ok = 0; }
			for (j = 0; j < TK + TPRE; j++) if (m.present[j]) m.val[j]++;
		}
		VH_MIX(h, m.n);
		if (ok && (!checklast_only || i == len - 1) && !tbl_check(t, &m, what)) ok = 0;
	}
	tblFree(t);
	if (ph) *ph = h;
	return ok;
}

static void tbl_dfs(int seed, int depth)
{
	int d, i;
	/* odometer over all sequences of length depth (each covers its prefixes) */
	for (i = 0; i < depth; i++) cur[i] = 0;
	curlen = depth;
	for (;;) {
		long idx = cur[0] * T_NOPS + (depth > 1 ? cur[1] : 0);
		if (idx % nshards == shard) {
			unsigned long long h;
			vh_seqs++;
			if (!tbl_run(seed, cur, depth, 0, &h)) {
				char ob[256]; vh_ops(ob, sizeof ob, cur, depth);
				printf("VIOLSEQ mode=table seed=%d ops=%s\n", seed, ob);
			}
			vh_outcome(h);
		}
		for (d = depth - 1; d >= 0; d--) { if (++cur[d] < T_NOPS) break; cur[d] = 0; }
		if (d < 0) break;
	}
}

/* ======================================================================== btree */
#define BK 6
#define BMAXE 64
typedef struct { int n; int key[BMAXE]; long elt[BMAXE]; } BModel;   /* unsorted multiset */
static int bm_count(BModel *m, int k) { int i, c = 0; for (i = 0; i < m->n; i++) if (m->key[i] == k) c++; return c; }
static int bm_remove(BModel *m, int k, long e)
{
	int i;
	for (i = 0; i < m->n; i++) if (m->key[i] == k && m->elt[i] == e) { m->key[i] = m->key[m->n - 1]; m->elt[i] = m->elt[m->n - 1]; m->n--; return 1; }
	return 0;
}
static int bt_walk(BTree x, int *keys, long *elts, int n)
{
	int i;
	for (i = 0; i < x->nKeys; i++) {
		if (!x->isLeaf) n = bt_walk(x->part[i].branch, keys, elts, n);
		if (n < 0 || n >= BMAXE) return -1;
		keys[n] = (int) x->part[i].key; elts[n] = (long) x->part[i].entry; n++;
	}
	if (!x->isLeaf) n = bt_walk(x->part[x->nKeys].branch, keys, elts, n);
	return n;
}
static int bt_check(BTree b, BModel *m, const char *what)
{
	int keys[BMAXE], n, i, k, ix, rc;
	long elts[BMAXE];
	BModel c = *m;
	BTree r;
	if ((rc = btreeCheck(b)) != 0) { vh_violation("mode=btree kind=btreeCheck rc=%d after=%s", rc, what); return 0; }
	n = bt_walk(b, keys, elts, 0);
	if (n != m->n) { vh_violation("mode=btree kind=count after=%s got=%d want=%d", what, n, m->n); return 0; }
	for (i = 0; i < n; i++) {
		if (i && keys[i - 1] > keys[i]) { vh_violation("mode=btree kind=order after=%s", what); return 0; }
		if (!bm_remove(&c, keys[i], elts[i])) { vh_violation("mode=btree kind=ghost-entry after=%s key=%d", what, keys[i]); return 0; }
	}
	for (k = 0; k <= BK + 1; k++) {
		int want = bm_count(m, k) > 0, ge = -1, j;
		r = btreeSearchEQ(b, (BTreeKey) k, &ix);
		if ((r != 0) != want || (r && (int) btreeKey(r, ix) != k)) { vh_violation("mode=btree kind=searchEQ after=%s key=%d", what, k); return 0; }
		for (j = 0; j < m->n; j++) if (m->key[j] >= k && (ge < 0 || m->key[j] < ge)) ge = m->key[j];
		r = btreeSearchGE(b, (BTreeKey) k, &ix);
		if ((r != 0) != (ge >= 0) || (r && (int) btreeKey(r, ix) != ge)) { vh_violation("mode=btree kind=searchGE after=%s key=%d want=%d", what, k, ge); return 0; }
	}
	if (m->n > 0) {
		r = btreeSearchMin(b, &ix);
		if (!r || (int) btreeKey(r, ix) != keys[0]) { vh_violation("mode=btree kind=min after=%s", what); return 0; }
		r = btreeSearchMax(b, &ix);
		if (!r || (int) btreeKey(r, ix) != keys[n - 1]) { vh_violation("mode=btree kind=max after=%s", what); return 0; }
	}
	return 1;
}
#define B_NOPS (2 * BK)
static int bt_enabled(BModel *m, int op) { return op < BK ? m->n < BMAXE - 1 : bm_count(m, op - BK + 1) > 0; }

/* replay; returns 1 ok, 0 violation, -1 if last op was not enabled */
static int bt_run(int seed, const int *ops, int len, BModel *out, unsigned long long *ph)
{
	/* seed = 1000 * t + prefill (t = 2 when seed < 1000): minimum degree of the tree and number of entries inserted first */
	int bt_t = seed >= 1000 ? seed / 1000 : 2;
	BTree b = btreeNew(bt_t);
	BModel m;
	int i, ok = 1;
	unsigned long long h = 1469598103934665603ULL;
	long id = 1;
	m.n = 0;
	seed %= 1000;
	for (i = 0; i < seed; i++) {
		int k = (i * 5) % BK + 1;
		btreeInsert(&b, (BTreeKey) k, (BTreeElt) id);
		m.key[m.n] = k; m.elt[m.n] = id; m.n++; id++;
	}
	for (i = 0; i < len && ok == 1; i++) {
		int op = ops[i];
		char what[32];
		snprintf(what, sizeof what, "step%d:op%d", i, op);
		if (!bt_enabled(&m, op)) { ok = -1; break; }
		vh_steps++;
		if (op < BK) {
			int k = op + 1;
			btreeInsert(&b, (BTreeKey) k, (BTreeElt) id);
			m.key[m.n] = k; m.elt[m.n] = id; m.n++; id++;
		}
		else {
			int k = op - BK + 1;
			BTreeElt e = 0;
			btreeDelete(&b, (BTreeKey) k, &e);
			if (!bm_remove(&m, k, (long) e)) { vh_violation("mode=btree kind=delete-returned-foreign-entry %s got=%ld", what, (long) e); ok = 0; }
			VH_MIX(h, (long) e);
		}
		VH_MIX(h, m.n);
		if (ok == 1 && i == len - 1 && !bt_check(b, &m, what)) ok = 0;
	}
	if (len == 0 && !bt_check(b, &m, "seed")) ok = 0;
	btreeFree(b);
	if (out) *out = m;
	if (ph) *ph = h;
	return ok;
}
static void bt_dfs(int seed, int depth, int level)
{
	BModel m;
	unsigned long long h;
	int r, op;
	curlen = level;
	if (level == 2 || (depth < 2 && level == depth)) { if (shardctr++ % nshards != shard) return; }
	r = bt_run(seed, cur, level, &m, &h);
	if (r < 0) return;
	vh_seqs++;
	vh_outcome(h ^ (unsigned long long) level);
	if (r == 0) {
		char ob[256]; vh_ops(ob, sizeof ob, cur, level);
		printf("VIOLSEQ mode=btree seed=%d ops=%s\n", seed, ob);
		return;
	}
	if (level == depth) return;
	for (op = 0; op < B_NOPS; op++) {
		if (!bt_enabled(&m, op)) continue;
		cur[level] = op;
		bt_dfs(seed, depth, level + 1);
	}
}

/* ======================================================================== priq */
#define P_NOPS 6
typedef struct { int n; double key[BMAXE]; long elt[BMAXE]; } PModel;
static int pq_heap_ok(PriQ pq)
{
	Length i;
	for (i = 1; i < pq->argc; i++) if (pq->argv[(i - 1) / 2].key > pq->argv[i].key) return 0;
	return 1;
}
static int pq_run(int seed, const int *ops, int len, PModel *out, unsigned long long *ph)
{
	PriQ pq = priqNew(1);
	PModel m;
	int i, ok = 1;
	long id = 1;
	unsigned long long h = 1469598103934665603ULL;
	static const double kv[4] = { 1.0, 2.0, 3.0, 0.0 };
	m.n = 0;
	for (i = 0; i < seed; i++) {
		double k = kv[(i * 3) % 3];
		priqInsert(pq, k, (PriQElt) id); m.key[m.n] = k; m.elt[m.n] = id; m.n++; id++;
	}
	for (i = 0; i < len && ok == 1; i++) {
		int op = ops[i];
		char what[32];
		snprintf(what, sizeof what, "step%d:op%d", i, op);
		if (op >= 4 && m.n == 0) { ok = -1; break; }
		if (op < 4 && m.n >= BMAXE - 1) { ok = -1; break; }
		vh_steps++;
		if (op < 4) {
			priqInsert(pq, kv[op], (PriQElt) id); m.key[m.n] = kv[op]; m.elt[m.n] = id; m.n++; id++;
		}
		else {
			double k = -1, mn = m.key[0];
			long e;
			int j, found = -1;
			for (j = 1; j < m.n; j++) if (m.key[j] < mn) mn = m.key[j];
			e = (long) (op == 4 ? priqExtractMin(pq, &k) : priqPeekMin(pq, &k));
			for (j = 0; j < m.n; j++) if (m.key[j] == mn && m.elt[j] == e) found = j;
			VH_MIX(h, e); VH_MIX(h, (long) k);
			if (k != mn || found < 0) { vh_violation("mode=priq kind=%s %s gotkey=%g wantkey=%g elt=%ld", op == 4 ? "extract" : "peek", what, k, mn, e); ok = 0; }
			else if (op == 4) { m.key[found] = m.key[m.n - 1]; m.elt[found] = m.elt[m.n - 1]; m.n--; }
		}
		if (ok == 1 && (int) priqCount(pq) != m.n) { vh_violation("mode=priq kind=count %s got=%d want=%d", what, (int) priqCount(pq), m.n); ok = 0; }
		if (ok == 1 && !pq_heap_ok(pq)) { vh_violation("mode=priq kind=heap-order %s", what); ok = 0; }
		if (ok == 1 && pq->argc > pq->size) { vh_violation("mode=priq kind=overflow %s", what); ok = 0; }
	}
	/* drain: remaining elements must come out in non-decreasing key order, each once */
	if (ok == 1) {
		PModel c = m;
		double last = -1;
		while (c.n > 0 && ok == 1) {
			double k = -1; long e = (long) priqExtractMin(pq, &k);
			int j, found = -1;
			for (j = 0; j < c.n; j++) if (c.key[j] == k && c.elt[j] == e) found = j;
			if (found < 0 || k < last) { vh_violation("mode=priq kind=drain key=%g elt=%ld", k, e); ok = 0; break; }
			last = k;
			c.key[found] = c.key[c.n - 1]; c.elt[found] = c.elt[c.n - 1]; c.n--;
			for (j = 0; j < c.n; j++) if (c.key[j] < k) { vh_violation("mode=priq kind=drain-not-min key=%g", k); ok = 0; break; }
		}
	}
	priqFree(pq);
	if (out) *out = m;
	if (ph) *ph = h;
	return ok;
}
static void pq_dfs(int seed, int depth, int level)
{
	PModel m;
	unsigned long long h;
	int r, op;
	curlen = level;
	if (level == 2) { if (shardctr++ % nshards != shard) return; }
	r = pq_run(seed, cur, level, &m, &h);
	if (r < 0) return;
	vh_seqs++;
	vh_outcome(h ^ (unsigned long long) level);
	if (r == 0) {
		char ob[256]; vh_ops(ob, sizeof ob, cur, level);
		printf("VIOLSEQ mode=priq seed=%d ops=%s\n", seed, ob);
		return;
	}
	if (level == depth) return;
	for (op = 0; op < P_NOPS; op++) { cur[level] = op; pq_dfs(seed, depth, level + 1); }
}

/* ======================================================================== bitv */
static void bv_fill(BitvClass c, Bitv b, int pat, int w)
{
	int i;
	bitvClearAll(c, b);
	for (i = 0; i < w; i++) {
		int on = 0;
		switch (pat) {
		case 0: on = 0; break;
		case 1: on = 1; break;
		case 2: on = (i & 1); break;
		case 3: on = (i == 0 || i == w - 1); break;
		case 4: on = (i % 3 == 0); break;
		case 5: on = (i >= w / 2); break;
		case 6: on = (i == 63 || i == 64); break;
		}
		if (on) bitvSet(c, b, i);
	}
}
static int bv_model(int pat, int i, int w)
{
	switch (pat) {
	case 0: return 0; case 1: return 1; case 2: return i & 1; case 3: return i == 0 || i == w - 1;
	case 4: return i % 3 == 0; case 5: return i >= w / 2; case 6: return i == 63 || i == 64;
	}
	return 0;
}
static void bv_all(void)
{
	static const int widths[] = { 1, 2, 31, 32, 33, 63, 64, 65, 127, 128, 129, 200 };
	int wi, pa, pb, op, i;
	curmode = "bitv";
	for (wi = 0; wi < (int)(sizeof widths / sizeof widths[0]); wi++) {
		int w = widths[wi];
		BitvClass c = bitvClassCreate(w);
		Bitv a = bitvNew(c), b = bitvNew(c), r = bitvNew(c), e = bitvNew(c);
		for (pa = 0; pa < 7; pa++) for (pb = 0; pb < 7; pb++) for (op = 0; op < 7; op++) {
			int cnt = 0, mx = -1, u1 = -1, n1 = 0;
			unsigned long long h = 1469598103934665603ULL;
			cur[0] = w; cur[1] = pa; cur[2] = pb; cur[3] = op; curlen = 4;
			bv_fill(c, a, pa, w); bv_fill(c, b, pb, w);
			memset(r, 0x5a, c->nwords * sizeof(BitvWord));      /* result starts as junk */
			switch (op) {
			case 0: bitvAnd(c, r, a, b); break;
			case 1: bitvOr(c, r, a, b); break;
			case 2: bitvMinus(c, r, a, b); break;
			case 3: bitvNot(c, r, a); break;
			case 4: bitvCopy(c, r, a); break;
			case 5: bitvSetAll(c, r); break;
			case 6: bitvClearAll(c, r); break;
			}
			vh_seqs++; vh_steps++;
			bitvClearAll(c, e);
			for (i = 0; i < w; i++) {
				int x = bv_model(pa, i, w), y = bv_model(pb, i, w), want = 0;
				switch (op) { case 0: want = x && y; break; case 1: want = x || y; break; case 2: want = x && !y; break;
				case 3: want = !x; break; case 4: want = x; break; case 5: want = 1; break; case 6: want = 0; break; }
				if ((bitvTest(c, r, i) != 0) != want) { vh_violation("mode=bitv kind=bit w=%d a=%d b=%d op=%d bit=%d", w, pa, pb, op, i); break; }
				if (want) { cnt++; mx = i; bitvSet(c, e, i); n1++; u1 = i; }
				VH_MIX(h, want);
			}
			vh_outcome(h ^ (unsigned long long) w);
			if (bitvCount(c, r) != cnt) vh_violation("mode=bitv kind=count w=%d a=%d b=%d op=%d got=%d want=%d", w, pa, pb, op, bitvCount(c, r), cnt);
			if (bitvMax(c, r) != mx) vh_violation("mode=bitv kind=max w=%d a=%d b=%d op=%d got=%d want=%d", w, pa, pb, op, bitvMax(c, r), mx);
			if (!bitvEqual(c, r, e)) vh_violation("mode=bitv kind=equal-to-bitwise-built w=%d a=%d b=%d op=%d", w, pa, pb, op);
			if (bitvUnique1IndexInRange(c, r, 0, w) != (n1 == 1 ? u1 : -1)) vh_violation("mode=bitv kind=unique1 w=%d a=%d b=%d op=%d", w, pa, pb, op);
			if (bitvCountTo(c, r, w / 2) > cnt) vh_violation("mode=bitv kind=countTo w=%d", w);
			/* a and b must be untouched */
			for (i = 0; i < w; i++) if ((bitvTest(c, a, i) != 0) != bv_model(pa, i, w) || (bitvTest(c, b, i) != 0) != bv_model(pb, i, w)) { vh_violation("mode=bitv kind=operand-clobbered w=%d a=%d b=%d op=%d", w, pa, pb, op); break; }
			/* equality is extensional */
			{ int same = 1; for (i = 0; i < w; i++) if (bv_model(pa, i, w) != bv_model(pb, i, w)) same = 0;
			  if ((bitvEqual(c, a, b) != 0) != same) vh_violation("mode=bitv kind=equal w=%d a=%d b=%d", w, pa, pb); }
			/* in-place forms: r = a; r = r op b */
			if (op <= 2) {
				bitvCopy(c, r, a);
				if (op == 0) bitvAnd(c, r, r, b); else if (op == 1) bitvOr(c, r, r, b); else bitvMinus(c, r, r, b);
				if (!bitvEqual(c, r, e)) vh_violation("mode=bitv kind=inplace w=%d a=%d b=%d op=%d", w, pa, pb, op);
			}
		}
		/* single bit set/clear/test at every index */
		for (i = 0; i < w; i++) {
			int j;
			bitvClearAll(c, r); bitvSet(c, r, i);
			for (j = 0; j < w; j++) if ((bitvTest(c, r, j) != 0) != (i == j)) vh_violation("mode=bitv kind=set w=%d bit=%d probe=%d", w, i, j);
			if (bitvCount(c, r) != 1) vh_violation("mode=bitv kind=set-count w=%d bit=%d", w, i);
			bitvSetAll(c, r); bitvClear(c, r, i);
			for (j = 0; j < w; j++) if ((bitvTest(c, r, j) != 0) != (i != j)) vh_violation("mode=bitv kind=clear w=%d bit=%d probe=%d", w, i, j);
			vh_steps += 2;
		}
		if (w < 31) {
			int v;
			for (v = 0; v < (1 << w); v++) { Bitv x = bitvFromInt(c, v); if (bitvToInt(c, x) != v) vh_violation("mode=bitv kind=int-roundtrip w=%d v=%d", w, v); bitvFree(x); }
		}
		bitvFree(a); bitvFree(b); bitvFree(r); bitvFree(e);
		bitvClassDestroy(c);
	}
}

/* ======================================================================== dnf */
#define NA 4
#define NASG (1 << NA)
typedef struct { DNF d; unsigned tt; } F;
static F *fs; static int nf = 0, fcap = 0;
static long dnf_known = 0;
static char dnf_known_first[400] = "";

/* --- simulation of the merge rule with the recorded defect (KNOWN_FINDINGS: multi-atom absorption):
 *     terms as (pos,neg) atom masks; rule A: t_i superset of t_j -> drop t_i;
 *     rule B as implemented: t_i superset of ~t_j (for ANY size of t_j) -> remove ~t_j from t_i.
 *     A wrong result is attributed to the finding only if this simulation reproduces its truth table. */
typedef struct { unsigned pos, neg; int dead; } ST;
typedef struct { int n; ST *t; } SL;
static SL sl_new(int n) { SL l; l.n = 0; l.t = malloc(sizeof(ST) * (n + 1)); return l; }
static SL sl_from(DNF x)
{
	SL l = sl_new(x->argc); int i; Length j;
	for (i = 0; i < x->argc; i++) {
		ST t; t.pos = t.neg = 0; t.dead = 0;
		for (j = 0; j < x->argv[i]->argc; j++) { int a = x->argv[i]->argv[j]; if (a > 0) t.pos |= 1u << (a - 1); else t.neg |= 1u << (-a - 1); }
		l.t[l.n++] = t;
	}
	return l;
}
static int sl_true(SL l) { return l.n == 1 && !l.t[0].pos && !l.t[0].neg; }
static SL sl_copy(SL a) { SL l = sl_new(a.n); memcpy(l.t, a.t, sizeof(ST) * a.n); l.n = a.n; return l; }
static SL sl_const(int v) { SL l = sl_new(1); if (v) { l.t[0].pos = l.t[0].neg = 0; l.t[0].dead = 0; l.n = 1; } return l; }
static void sl_merge(SL *l)
{
	int i, j, k = 0;
	for (i = 0; i < l->n; i++) for (j = 0; j < l->n; j++) {
		ST *a = &l->t[i], *b = &l->t[j];
		if (i != j && !a->dead && !b->dead && (a->pos & b->pos) == b->pos && (a->neg & b->neg) == b->neg) a->dead = 1;
		if (i != j && !a->dead && !b->dead && (a->pos & b->neg) == b->neg && (a->neg & b->pos) == b->pos) { a->pos &= ~b->neg; a->neg &= ~b->pos; }
	}
	for (i = 0; i < l->n; i++) if (!l->t[i].dead) l->t[k++] = l->t[i];
	l->n = k;
}
static SL sl_or(SL x, SL y)
{
	SL l; int i;
	if (sl_true(x) || sl_true(y)) return sl_const(1);
	if (x.n == 0) return sl_copy(y);
	if (y.n == 0) return sl_copy(x);
	l = sl_new(x.n + y.n);
	for (i = 0; i < x.n; i++) l.t[l.n++] = x.t[i];
	for (i = 0; i < y.n; i++) l.t[l.n++] = y.t[i];
	sl_merge(&l);
	return l;
}
static SL sl_and(SL x, SL y)
{
	SL l; int i, j;
	if (x.n == 0 || y.n == 0) return sl_const(0);
	if (sl_true(x)) return sl_copy(y);
	if (sl_true(y)) return sl_copy(x);
	l = sl_new(x.n * y.n);
	for (i = 0; i < x.n; i++) for (j = 0; j < y.n; j++) {
		ST t; t.pos = x.t[i].pos | y.t[j].pos; t.neg = x.t[i].neg | y.t[j].neg; t.dead = (t.pos & t.neg) != 0;
		l.t[l.n++] = t;
	}
	sl_merge(&l);
	return l;
}
static SL sl_not(SL x, int natoms)
{
	SL r; int i, a;
	if (x.n == 0) return sl_const(1);
	if (sl_true(x)) return sl_const(0);
	r = sl_const(1);
	for (i = 0; i < x.n; i++) {
		SL b = sl_new(natoms + 1), nr;
		for (a = 0; a < natoms; a++) {
			ST t; t.dead = 0; t.pos = t.neg = 0;
			if (x.t[i].pos & (1u << a)) { t.neg = 1u << a; b.t[b.n++] = t; }
			else if (x.t[i].neg & (1u << a)) { t.pos = 1u << a; b.t[b.n++] = t; }
		}
		nr = sl_and(r, b);
		free(r.t); free(b.t);
		r = nr;
	}
	return r;
}
static int sl_eval(SL l, unsigned a)
{
	int i;
	for (i = 0; i < l.n; i++) if ((l.t[i].pos & ~a) == 0 && (l.t[i].neg & a) == 0) return 1;
	return 0;
}
static int dnf_eval(DNF x, unsigned a)
{
	int i; Length j;
	for (i = 0; i < x->argc; i++) {
		DNF_And t = x->argv[i]; int ok = 1;
		for (j = 0; j < t->argc; j++) { int at = t->argv[j]; int var = abs(at) - 1; if ((at > 0) != (int)((a >> var) & 1)) { ok = 0; break; } }
		if (ok) return 1;
	}
	return 0;
}
/* does the defect simulation of op(x,y) reproduce the real result r on all assignments? */
static int dnf_explained(int op, DNF x, DNF y, DNF r, int natoms)
{
	SL a = sl_from(x), b = y ? sl_from(y) : sl_const(0), s;
	unsigned as; int same = 1;
	s = op == 0 ? sl_not(a, natoms) : op == 1 ? sl_and(a, b) : sl_or(a, b);
	for (as = 0; as < (1u << natoms); as++) if (sl_eval(s, as) != dnf_eval(r, as)) { same = 0; break; }
	free(a.t); free(b.t); free(s.t);
	return same;
}
static unsigned dnf_tt(DNF x)
{
	unsigned tt = 0; int a;
	for (a = 0; a < NASG; a++) if (dnf_eval(x, a)) tt |= 1u << a;
	return tt;
}
static void dnf_add(DNF d, unsigned tt) { if (nf == fcap) { fcap = fcap ? fcap * 2 : 4096; fs = realloc(fs, fcap * sizeof(F)); } fs[nf].d = d; fs[nf].tt = tt; nf++; }
static void dnf_show(const char *kind, DNF a, const char *op, DNF b, DNF r)
{
	if (vh_viol >= vh_maxviol) { vh_viol++; return; }
	vh_viol++;
	printf("VIOL mode=dnf kind=%s ", kind);
	if (a) dnfPrint(stdout, a);
	printf(" %s ", op);
	if (b) dnfPrint(stdout, b);
	if (r) { printf(" -> "); dnfPrint(stdout, r); }
	printf("\n");
}
/* a wrong result of op: known finding if the defect simulation explains it, violation otherwise */
static void dnf_wrong(const char *kind, int opc, DNF a, const char *op, DNF b, DNF r, int natoms)
{
	if (dnf_explained(opc, opc == 0 ? b : a, opc == 0 ? 0 : b, r, natoms)) {
		if (!dnf_known++) {
			FILE *m = fmemopen(dnf_known_first, sizeof dnf_known_first - 1, "w");
			if (m) { if (a) dnfPrint(m, a); fprintf(m, " %s ", op); if (b) dnfPrint(m, b); fprintf(m, " -> "); dnfPrint(m, r); fclose(m); }
		}
		return;
	}
	dnf_show(kind, a, op, b, r);
}
static void dnf_pair(int i, int j, int keep, int lvl)
{
	const unsigned full = (1u << NASG) - 1;
	DNF a, o; unsigned ea, eo, ga, go;
	cur[0] = lvl; cur[1] = i; cur[2] = j; curlen = 3;
	a = dnfAnd(fs[i].d, fs[j].d); o = dnfOr(fs[i].d, fs[j].d);
	ea = fs[i].tt & fs[j].tt; eo = fs[i].tt | fs[j].tt;
	ga = dnf_tt(a); go = dnf_tt(o);
	vh_seqs += 2; vh_steps += 2;
	if (ga != ea) dnf_wrong("and", 1, fs[i].d, "and", fs[j].d, a, NA);
	if (go != eo) dnf_wrong("or", 2, fs[i].d, "or", fs[j].d, o, NA);
	if (dnfIsTrue(a) && ga != full) dnf_show("isTrue-unsound", fs[i].d, "and", fs[j].d, a);
	if (dnfIsFalse(o) && go != 0) dnf_show("isFalse-unsound", fs[i].d, "or", fs[j].d, o);
	/* operands must not have been changed */
	if (dnf_tt(fs[i].d) != fs[i].tt || dnf_tt(fs[j].d) != fs[j].tt) dnf_show("operand-clobbered", fs[i].d, "and/or", fs[j].d, 0);
	vh_outcome(((unsigned long long) ga << 16) | go);
	/* stored formulas carry their ACTUAL truth table, so each operation is judged on its own operands */
	if (keep) { dnf_add(a, ga); dnf_add(o, go); } else { dnfFree(a); dnfFree(o); }
}
static void dnf_all(int depth)
{
	const unsigned full = (1u << NASG) - 1;
	int i, j, lvl, start = 0, l1end;
	curmode = "dnf";
	dnf_add(dnfTrue(), full); dnf_add(dnfFalse(), 0);
	for (i = 1; i <= NA; i++) {
		unsigned tt = 0; int a;
		for (a = 0; a < NASG; a++) if ((a >> (i - 1)) & 1) tt |= 1u << a;
		dnf_add(dnfAtom(i), tt); dnf_add(dnfNotAtom(i), full & ~tt);
	}
	for (i = 0; i < nf; i++) { vh_seqs++; if (dnf_tt(fs[i].d) != fs[i].tt) dnf_show("atom", fs[i].d, "", 0, 0); }
	if (!dnfIsTrue(fs[0].d) || dnfIsTrue(fs[1].d) || !dnfIsFalse(fs[1].d) || dnfIsFalse(fs[0].d)) vh_violation("mode=dnf kind=isTrue/isFalse");
	l1end = nf;
	for (lvl = 1; lvl <= depth; lvl++) {
		int end = nf, keep = (lvl < depth) || lvl == 1;
		if (lvl >= 3) keep = 0;
		for (i = start; i < end; i++) {
			DNF n = dnfNot(fs[i].d); unsigned e = full & ~fs[i].tt, got = dnf_tt(n);
			vh_seqs++; vh_steps++;
			cur[0] = lvl; cur[1] = i; cur[2] = -1; curlen = 3;
			if (got != e) dnf_wrong("not", 0, 0, "not", fs[i].d, n, NA);
			else { DNF nn = dnfNot(n); if (dnf_tt(nn) != fs[i].tt) dnf_wrong("notnot", 0, 0, "not", n, nn, NA); dnfFree(nn); }
			if (dnfIsTrue(n) && got != full) dnf_show("isTrue-unsound", 0, "not", fs[i].d, n);
			if (dnfIsFalse(n) && got != 0) dnf_show("isFalse-unsound", 0, "not", fs[i].d, n);
			vh_outcome(got + 7);
			if (keep) dnf_add(n, got); else dnfFree(n);
		}
		if (lvl >= 3) {
			/* half level: every level-(lvl-1) formula combined with every formula of level <= 1, both orders */
			for (i = start; i < end; i++) {
				if ((i % nshards) != shard) continue;
				for (j = 0; j < l1end; j++) { dnf_pair(i, j, 0, lvl); dnf_pair(j, i, 0, lvl); }
			}
		}
		else for (i = 0; i < end; i++) {
			if ((i % nshards) != shard && lvl == depth && depth > 1) continue;
			for (j = 0; j < end; j++) {
				if (i < start && j < start) continue;
				dnf_pair(i, j, keep, lvl);
			}
		}
		if (lvl == 1) l1end = nf;
		start = end;
	}
	/* implies / equal against truth tables: all pairs up to level 1 */
	{
		int N = l1end;
		for (i = 0; i < N; i++) {
			if ((i % nshards) != shard) continue;
			for (j = 0; j < N; j++) {
				int sem = ((fs[i].tt & ~fs[j].tt) == 0), got, seq = (fs[i].tt == fs[j].tt), ge;
				cur[0] = 99; cur[1] = i; cur[2] = j; curlen = 3;
				got = dnfImplies(fs[i].d, fs[j].d) != 0;
				ge = dnfEqual(fs[i].d, fs[j].d) != 0;
				vh_seqs += 2; vh_steps += 2;
				if (got != sem) dnf_show(got ? "implies-unsound" : "implies-incomplete", fs[i].d, "=>", fs[j].d, 0);
				if (ge != seq) dnf_show(ge ? "equal-unsound" : "equal-incomplete", fs[i].d, "==", fs[j].d, 0);
			}
		}
	}
	printf("STAT dnf_formulas=%d level1=%d\n", nf, l1end);
	if (dnf_known) printf("KNOWN mode=dnf cause=multi-atom-absorption count=%ld first=%s\n", dnf_known, dnf_known_first);
}

/* dnf with 10 atoms: deterministic chains, checked on all 1024 assignments */
static void dnf_big(void)
{
	enum { N = 10, NAS = 1 << N };
	static unsigned char ta[NAS], tb[NAS], tc[NAS];
	int step, a, pat;
	curmode = "dnf10";
	for (pat = 0; pat < 24; pat++) {
		DNF acc = (pat & 1) ? dnfTrue() : dnfFalse();
		for (a = 0; a < NAS; a++) ta[a] = (pat & 1);
		for (step = 0; step < 14; step++) {
			/* term: (x_i op x_j') with indices walking deterministically */
			int i = (step * 3 + pat) % N + 1, j = (step * 7 + pat * 5 + 1) % N + 1;
			DNF l = ((step + pat) & 2) ? dnfNotAtom(i) : dnfAtom(i);
			DNF r = ((step + pat) & 4) ? dnfNotAtom(j) : dnfAtom(j);
			int tand = ((step + pat / 2) & 1);
			DNF t = tand ? dnfAnd(l, r) : dnfOr(l, r);
			DNF nacc;
			int useand = ((step + pat / 3) % 3 == 0), neg = ((step + pat) % 5 == 4), bad = 0;
			for (a = 0; a < NAS; a++) {
				int li = ((a >> (i - 1)) & 1) ^ (((step + pat) & 2) ? 1 : 0);
				int ri = ((a >> (j - 1)) & 1) ^ (((step + pat) & 4) ? 1 : 0);
				tb[a] = tand ? (li && ri) : (li || ri);
			}
			cur[0] = pat; cur[1] = step; curlen = 2;
			for (a = 0; a < NAS; a++) if (dnf_eval(t, a) != tb[a]) { bad = 1; break; }
			if (bad) dnf_wrong("term", tand ? 1 : 2, l, tand ? "and" : "or", r, t, N);
			for (a = 0; a < NAS; a++) tb[a] = dnf_eval(t, a);
			nacc = useand ? dnfAnd(acc, t) : dnfOr(acc, t);
			for (a = 0; a < NAS; a++) tc[a] = useand ? (ta[a] && tb[a]) : (ta[a] || tb[a]);
			vh_seqs++; vh_steps++;
			bad = 0;
			for (a = 0; a < NAS; a++) if (dnf_eval(nacc, a) != tc[a]) { bad = 1; break; }
			if (bad) dnf_wrong("chain", useand ? 1 : 2, acc, useand ? "and" : "or", t, nacc, N);
			for (a = 0; a < NAS; a++) ta[a] = dnf_eval(nacc, a);      /* continue from the ACTUAL value */
			if (neg) {
				DNF n2 = dnfNot(nacc);
				bad = 0;
				for (a = 0; a < NAS; a++) if (dnf_eval(n2, a) != !ta[a]) { bad = 1; break; }
				if (bad) dnf_wrong("chain-not", 0, 0, "not", nacc, n2, N);
				nacc = n2;
				for (a = 0; a < NAS; a++) ta[a] = dnf_eval(nacc, a);
				vh_seqs++; vh_steps++;
			}
			{ unsigned long long h = 7; for (a = 0; a < NAS; a += 37) VH_MIX(h, ta[a]); vh_outcome(h + pat * 131 + step); }
			acc = nacc;
			if (acc->argc > 300) break;
		}
	}
	if (dnf_known) printf("KNOWN mode=dnf10 cause=multi-atom-absorption count=%ld first=%s\n", dnf_known, dnf_known_first);
}

/* ======================================================================== main */
int main(int argc, char **argv)
{
	const char *mode;
	int depth, seed;
	if (argc < 4) { fprintf(stderr, "usage\n"); return 2; }
	osInit();
	signal(SIGABRT, on_crash); signal(SIGSEGV, on_crash); signal(SIGBUS, on_crash); signal(SIGFPE, on_crash);
	mode = argv[1]; curmode = mode;
	if (!strcmp(argv[2], "replay")) {
		int ops[64], n, r = 1;
		seed = atoi(argv[3]); curseed = seed;
		n = vh_parse(argc > 4 ? argv[4] : "", ops, 64);
		memcpy(cur, ops, sizeof(int) * n); curlen = n;
		vh_maxviol = 100;
		if (!strcmp(mode, "table")) r = tbl_run(seed, ops, n, 0, 0);
		else if (!strcmp(mode, "btree")) { int i; for (i = 0; i <= n && r == 1; i++) r = bt_run(seed, ops, i, 0, 0); }
		else if (!strcmp(mode, "priq")) r = pq_run(seed, ops, n, 0, 0);
		printf("REPLAY %s\n", r == 1 ? "ok" : "violation");
		return r == 1 ? 0 : 1;
	}
	depth = atoi(argv[2]); seed = atoi(argv[3]); curseed = seed;
	if (argc > 5) { shard = atoi(argv[4]); nshards = atoi(argv[5]); }
	if (!strcmp(mode, "table")) tbl_dfs(seed, depth);
	else if (!strcmp(mode, "btree")) bt_dfs(seed, depth, 0);
	else if (!strcmp(mode, "priq")) pq_dfs(seed, depth, 0);
	else if (!strcmp(mode, "bitv")) bv_all();
	else if (!strcmp(mode, "dnf")) dnf_all(depth);
	else if (!strcmp(mode, "dnf10")) dnf_big();
	else return 2;
	vh_stats(mode);
	return vh_viol ? 1 : 0;
}
