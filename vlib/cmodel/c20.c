/* C20: hash table, B-tree, priority queue, bit vectors, DNF against reference models.
 * Every operation sequence up to the depth bound is replayed on a fresh object of the
 * repository's module (linked from the working tree) and compared step by step with a
 * plain reference model.  usage: c20 <mode> <depth> <seed> <shard> <nshards> | c20 <mode> replay <seed> <ops>
 */
#include "axlgen.h"
#include "table.h"
#include "btree.h"
#include "priq.h"
#include "bitv.h"
#include "dnf.h"
#include "store.h"
#include "opsys.h"
#include <signal.h>
#include <unistd.h>
#include "vh.h"

static int cur[64], curlen = 0, curseed = 0;
static const char *curmode = "?";
static int shard = 0, nshards = 1;
static long shardctr = 0;

static void on_crash(int sig)
{
	char buf[400];
	char ob[256];
	vh_ops(ob, sizeof ob, cur, curlen);
	snprintf(buf, sizeof buf, "\nVIOL mode=%s kind=crash signal=%d seed=%d ops=%s\n", curmode, sig, curseed, ob);
	if (write(1, buf, strlen(buf))) {}
	_exit(9);
}

/* ======================================================================== table */
#define TK 4
#define TPRE 48
static Hash thash(TblKey k)
{
	long v = (long) k - 1;
	if (v < TK) return (v & 1) ? 7 : 0;     /* two colliding hash values, equal pairwise */
	return (Hash) v;
}
static Bool teq(TblKey a, TblKey b) { return a == b; }

typedef struct { int present[TK + TPRE]; long val[TK + TPRE]; int n; } TModel;

static int tbl_check(Table t, TModel *m, const char *what)
{
	TableIterator it;
	int seen[TK + TPRE];
	int i, cnt = 0;
	memset(seen, 0, sizeof seen);
	if ((int) tblSize(t) != m->n) {
		vh_violation("mode=table kind=size after=%s got=%d want=%d", what, (int) tblSize(t), m->n);
		return 0;
	}
	for (tblITER(it, t); tblMORE(it); tblSTEP(it)) {
		long k = (long) tblKEY(it) - 1;
		long ki = k < TK ? k : k - 100 + TK;
		if (ki < 0 || ki >= TK + TPRE || !m->present[ki]) {
			vh_violation("mode=table kind=iter-ghost after=%s key=%ld", what, k); return 0;
		}
		if (seen[ki]++) { vh_violation("mode=table kind=iter-twice after=%s key=%ld", what, k); return 0; }
		if ((long) tblELT(it) != m->val[ki]) {
			vh_violation("mode=table kind=iter-value after=%s key=%ld got=%ld want=%ld", what, k, (long) tblELT(it), m->val[ki]);
			return 0;
		}
		cnt++;
	}
	if (cnt != m->n) { vh_violation("mode=table kind=iter-count after=%s got=%d want=%d", what, cnt, m->n); return 0; }
	(void) i;
	return 1;
}

#define T_NOPS 15
/* returns 0 on violation */
static int tbl_run(int seed, const int *ops, int len, int checklast_only, unsigned long long *ph)
{
	Table t = tblNew((TblHashFun) thash, (TblEqFun) teq);
	TModel m;
	int i, ok = 1, extra = 0;
	unsigned long long h = 1469598103934665603ULL;
	memset(&m, 0, sizeof m);
	for (i = 0; i < seed; i++) {
		tblSetElt(t, (TblKey)(long)(100 + i + 1), (TblElt)(long)(1000 + i));
		m.present[TK + i] = 1; m.val[TK + i] = 1000 + i; m.n++;
	}
	for (i = 0; i < len && ok; i++) {
		int op = ops[i];
		char what[32];
		snprintf(what, sizeof what, "step%d:op%d", i, op);
		vh_steps++;
		if (op < 4) {
			long v = 10 * (i + 1) + op;
			TblElt r = tblSetElt(t, (TblKey)(long)(op + 1), (TblElt) v);
			if ((long) r != v) { vh_violation("mode=table kind=set-result %s", what); ok = 0; }
			if (!m.present[op]) { m.present[op] = 1; m.n++; }
			m.val[op] = v;
		}
		else if (op < 8) {
			int k = op - 4;
			long r = (long) tblElt(t, (TblKey)(long)(k + 1), (TblElt)(long) -1);
			long want = m.present[k] ? m.val[k] : -1;
			VH_MIX(h, r);
			if (r != want) { vh_violation("mode=table kind=get %s got=%ld want=%ld", what, r, want); ok = 0; }
		}
		else if (op < 12) {
			int k = op - 8;
			Table r = tblDrop(t, (TblKey)(long)(k + 1));
			if (r != t) { vh_violation("mode=table kind=drop-result %s", what); ok = 0; }
			if (m.present[k]) { m.present[k] = 0; m.n--; }
		}
		else if (op == 12) {
			Table c = tblCopy(t);
			if (!tbl_check(c, &m, "copy(new)")) ok = 0;
			if (ok && !tbl_check(t, &m, "copy(old)")) ok = 0;
			tblFree(t);
			t = c;
		}
		else if (op == 13) {         /* drop a pre-filled key (highest present) */
			int j;
			for (j = TPRE - 1; j >= 0 && !m.present[TK + j]; j--) ;
			if (j >= 0) {
				tblDrop(t, (TblKey)(long)(100 + j + 1));
				m.present[TK + j] = 0; m.n--;
			}
		}
		else if (op == 14) {         /* add a fresh spread key */
			int j = seed + extra;
			if (j < TPRE) {
				tblSetElt(t, (TblKey)(long)(100 + j + 1), (TblElt)(long)(1000 + j));
				m.present[TK + j] = 1; m.val[TK + j] = 1000 + j; m.n++;
				extra++;
			}
		}
		VH_MIX(h, m.n);
		if (ok && (!checklast_only || i == len - 1) && !tbl_check(t, &m, what)) ok = 0;
	}
	tblFree(t);
	if (ph) *ph = h;
	return ok;
}

static void tbl_dfs(int seed, int depth)
{
	int d, i;
	/* odometer over all sequences of length depth (each covers its prefixes) */
	for (i = 0; i < depth; i++) cur[i] = 0;
	curlen = depth;
	for (;;) {
		long idx = cur[0] * T_NOPS + (depth > 1 ? cur[1] : 0);
		if (idx % nshards == shard) {
			unsigned long long h;
			vh_seqs++;
			if (!tbl_run(seed, cur, depth, 0, &h)) {
				char ob[256]; vh_ops(ob, sizeof ob, cur, depth);
				printf("VIOLSEQ mode=table seed=%d ops=%s\n", seed, ob);
			}
			vh_outcome(h);
		}
		for (d = depth - 1; d >= 0; d--) { if (++cur[d] < T_NOPS) break; cur[d] = 0; }
		if (d < 0) break;
	}
}

/* ======================================================================== btree */
#define BK 6
#define BMAXE 64
typedef struct { int n; int key[BMAXE]; long elt[BMAXE]; } BModel;   /* unsorted multiset */
static int bm_count(BModel *m, int k) { int i, c = 0; for (i = 0; i < m->n; i++) if (m->key[i] == k) c++; return c; }
static int bm_remove(BModel *m, int k, long e)
{
	int i;
	for (i = 0; i < m->n; i++) if (m->key[i] == k && m->elt[i] == e) { m->key[i] = m->key[m->n - 1]; m->elt[i] = m->elt[m->n - 1]; m->n--; return 1; }
	return 0;
}
static int bt_walk(BTree x, int *keys, long *elts, int n)
{
	int i;
	for (i = 0; i < x->nKeys; i++) {
		if (!x->isLeaf) n = bt_walk(x->part[i].branch, keys, elts, n);
		if (n < 0 || n >= BMAXE) return -1;
		keys[n] = (int) x->part[i].key; elts[n] = (long) x->part[i].entry; n++;
	}
	if (!x->isLeaf) n = bt_walk(x->part[x->nKeys].branch, keys, elts, n);
	return n;
}
static int bt_check(BTree b, BModel *m, const char *what)
{
	int keys[BMAXE], n, i, k, ix, rc;
	long elts[BMAXE];
	BModel c = *m;
	BTree r;
	if ((rc = btreeCheck(b)) != 0) { vh_violation("mode=btree kind=btreeCheck rc=%d after=%s", rc, what); return 0; }
	n = bt_walk(b, keys, elts, 0);
	if (n != m->n) { vh_violation("mode=btree kind=count after=%s got=%d want=%d", what, n, m->n); return 0; }
	for (i = 0; i < n; i++) {
		if (i && keys[i - 1] > keys[i]) { vh_violation("mode=btree kind=order after=%s", what); return 0; }
		if (!bm_remove(&c, keys[i], elts[i])) { vh_violation("mode=btree kind=ghost-entry after=%s key=%d", what, keys[i]); return 0; }
	}
	for (k = 0; k <= BK + 1; k++) {
		int want = bm_count(m, k) > 0, ge = -1, j;
		r = btreeSearchEQ(b, (BTreeKey) k, &ix);
		if ((r != 0) != want || (r && (int) btreeKey(r, ix) != k)) { vh_violation("mode=btree kind=searchEQ after=%s key=%d", what, k); return 0; }
		for (j = 0; j < m->n; j++) if (m->key[j] >= k && (ge < 0 || m->key[j] < ge)) ge = m->key[j];
		r = btreeSearchGE(b, (BTreeKey) k, &ix);
		if ((r != 0) != (ge >= 0) || (r && (int) btreeKey(r, ix) != ge)) { vh_violation("mode=btree kind=searchGE after=%s key=%d want=%d", what, k, ge); return 0; }
	}
	if (m->n > 0) {
		r = btreeSearchMin(b, &ix);
		if (!r || (int) btreeKey(r, ix) != keys[0]) { vh_violation("mode=btree kind=min after=%s", what); return 0; }
		r = btreeSearchMax(b, &ix);
		if (!r || (int) btreeKey(r, ix) != keys[n - 1]) { vh_violation("mode=btree kind=max after=%s", what); return 0; }
	}
	return 1;
}
#define B_NOPS (2 * BK)
static int bt_enabled(BModel *m, int op) { return op < BK ? m->n < BMAXE - 1 : bm_count(m, op - BK + 1) > 0; }

/* replay; returns 1 ok, 0 violation, -1 if last op was not enabled */
static int bt_run(int seed, const int *ops, int len, BModel *out, unsigned long long *ph)
{
	BTree b = btreeNew(2);
	BModel m;
	int i, ok = 1;
	unsigned long long h = 1469598103934665603ULL;
	long id = 1;
	m.n = 0;
	for (i = 0; i < seed; i++) {
		int k = (i * 5) % BK + 1;
		btreeInsert(&b, (BTreeKey) k, (BTreeElt) id);
		m.key[m.n] = k; m.elt[m.n] = id; m.n++; id++;
	}
	for (i = 0; i < len && ok == 1; i++) {
		int op = ops[i];
		char what[32];
		snprintf(what, sizeof what, "step%d:op%d", i, op);
		if (!bt_enabled(&m, op)) { ok = -1; break; }
		vh_steps++;
		if (op < BK) {
			int k = op + 1;
			btreeInsert(&b, (BTreeKey) k, (BTreeElt) id);
			m.key[m.n] = k; m.elt[m.n] = id; m.n++; id++;
		}
		else {
			int k = op - BK + 1;
			BTreeElt e = 0;
			btreeDelete(&b, (BTreeKey) k, &e);
			if (!bm_remove(&m, k, (long) e)) { vh_violation("mode=btree kind=delete-returned-foreign-entry %s got=%ld", what, (long) e); ok = 0; }
			VH_MIX(h, (long) e);
		}
		VH_MIX(h, m.n);
		if (ok == 1 && i == len - 1 && !bt_check(b, &m, what)) ok = 0;
	}
	if (len == 0 && !bt_check(b, &m, "seed")) ok = 0;
	btreeFree(b);
	if (out) *out = m;
	if (ph) *ph = h;
	return ok;
}
static void bt_dfs(int seed, int depth, int level)
{
	BModel m;
	unsigned long long h;
	int r, op;
	curlen = level;
	if (level == 2 || (depth < 2 && level == depth)) { if (shardctr++ % nshards != shard) return; }
	r = bt_run(seed, cur, level, &m, &h);
	if (r < 0) return;
	vh_seqs++;
	vh_outcome(h ^ (unsigned long long) level);
	if (r == 0) {
		char ob[256]; vh_ops(ob, sizeof ob, cur, level);
		printf("VIOLSEQ mode=btree seed=%d ops=%s\n", seed, ob);
		return;
	}
	if (level == depth) return;
	for (op = 0; op < B_NOPS; op++) {
		if (!bt_enabled(&m, op)) continue;
		cur[level] = op;
		bt_dfs(seed, depth, level + 1);
	}
}

/* ======================================================================== priq */
#define P_NOPS 6
typedef struct { int n; double key[BMAXE]; long elt[BMAXE]; } PModel;
static int pq_heap_ok(PriQ pq)
{
	Length i;
	for (i = 1; i < pq->argc; i++) if (pq->argv[(i - 1) / 2].key > pq->argv[i].key) return 0;
	return 1;
}
static int pq_run(int seed, const int *ops, int len, PModel *out, unsigned long long *ph)
{
	PriQ pq = priqNew(1);
	PModel m;
	int i, ok = 1;
	long id = 1;
	unsigned long long h = 1469598103934665603ULL;
	static const double kv[4] = { 1.0, 2.0, 3.0, 0.0 };
	m.n = 0;
	for (i = 0; i < seed; i++) {
		double k = kv[(i * 3) % 3];
		priqInsert(pq, k, (PriQElt) id); m.key[m.n] = k; m.elt[m.n] = id; m.n++; id++;
	}
	for (i = 0; i < len && ok == 1; i++) {
		int op = ops[i];
		char what[32];
		snprintf(what, sizeof what, "step%d:op%d", i, op);
		if (op >= 4 && m.n == 0) { ok = -1; break; }
		if (op < 4 && m.n >= BMAXE - 1) { ok = -1; break; }
		vh_steps++;
		if (op < 4) {
			priqInsert(pq, kv[op], (PriQElt) id); m.key[m.n] = kv[op]; m.elt[m.n] = id; m.n++; id++;
		}
		else {
			double k = -1, mn = m.key[0];
			long e;
			int j, found = -1;
			for (j = 1; j < m.n; j++) if (m.key[j] < mn) mn = m.key[j];
			e = (long) (op == 4 ? priqExtractMin(pq, &k) : priqPeekMin(pq, &k));
			for (j = 0; j < m.n; j++) if (m.key[j] == mn && m.elt[j] == e) found = j;
			VH_MIX(h, e); VH_MIX(h, (long) k);
			if (k != mn || found < 0) { vh_violation("mode=priq kind=%s %s gotkey=%g wantkey=%g elt=%ld", op == 4 ? "extract" : "peek", what, k, mn, e); ok = 0; }
			else if (op == 4) { m.key[found] = m.key[m.n - 1]; m.elt[found] = m.elt[m.n - 1]; m.n--; }
		}
		if (ok == 1 && (int) priqCount(pq) != m.n) { vh_violation("mode=priq kind=count %s got=%d want=%d", what, (int) priqCount(pq), m.n); ok = 0; }
		if (ok == 1 && !pq_heap_ok(pq)) { vh_violation("mode=priq kind=heap-order %s", what); ok = 0; }
		if (ok == 1 && pq->argc > pq->size) { vh_violation("mode=priq kind=overflow %s", what); ok = 0; }
	}
	/* drain: remaining elements must come out in non-decreasing key order, each once */
	if (ok == 1) {
		PModel c = m;
		double last = -1;
		while (c.n > 0 && ok == 1) {
			double k = -1; long e = (long) priqExtractMin(pq, &k);
			int j, found = -1;
			for (j = 0; j < c.n; j++) if (c.key[j] == k && c.elt[j] == e) found = j;
			if (found < 0 || k < last) { vh_violation("mode=priq kind=drain key=%g elt=%ld", k, e); ok = 0; break; }
			last = k;
			c.key[found] = c.key[c.n - 1]; c.elt[found] = c.elt[c.n - 1]; c.n--;
			for (j = 0; j < c.n; j++) if (c.key[j] < k) { vh_violation("mode=priq kind=drain-not-min key=%g", k); ok = 0; break; }
		}
	}
	priqFree(pq);
	if (out) *out = m;
	if (ph) *ph = h;
	return ok;
}
static void pq_dfs(int seed, int depth, int level)
{
	PModel m;
	unsigned long long h;
	int r, op;
	curlen = level;
	if (level == 2) { if (shardctr++ % nshards != shard) return; }
	r = pq_run(seed, cur, level, &m, &h);
	if (r < 0) return;
	vh_seqs++;
	vh_outcome(h ^ (unsigned long long) level);
	if (r == 0) {
		char ob[256]; vh_ops(ob, sizeof ob, cur, level);
		printf("VIOLSEQ mode=priq seed=%d ops=%s\n", seed, ob);
		return;
	}
	if (level == depth) return;
	for (op = 0; op < P_NOPS; op++) { cur[level] = op; pq_dfs(seed, depth, level + 1); }
}

/* ======================================================================== bitv */
static void bv_fill(BitvClass c, Bitv b, int pat, int w)
{
	int i;
	bitvClearAll(c, b);
	for (i = 0; i < w; i++) {
		int on = 0;
		switch (pat) {
		case 0: on = 0; break;
		case 1: on = 1; break;
		case 2: on = (i & 1); break;
		case 3: on = (i == 0 || i == w - 1); break;
		case 4: on = (i % 3 == 0); break;
		case 5: on = (i >= w / 2); break;
		case 6: on = (i == 63 || i == 64); break;
		}
		if (on) bitvSet(c, b, i);
	}
}
static int bv_model(int pat, int i, int w)
{
	switch (pat) {
	case 0: return 0; case 1: return 1; case 2: return i & 1; case 3: return i == 0 || i == w - 1;
	case 4: return i % 3 == 0; case 5: return i >= w / 2; case 6: return i == 63 || i == 64;
	}
	return 0;
}
static void bv_all(void)
{
	static const int widths[] = { 1, 2, 31, 32, 33, 63, 64, 65, 127, 128, 129, 200 };
	int wi, pa, pb, op, i;
	curmode = "bitv";
	for (wi = 0; wi < (int)(sizeof widths / sizeof widths[0]); wi++) {
		int w = widths[wi];
		BitvClass c = bitvClassCreate(w);
		Bitv a = bitvNew(c), b = bitvNew(c), r = bitvNew(c), e = bitvNew(c);
		for (pa = 0; pa < 7; pa++) for (pb = 0; pb < 7; pb++) for (op = 0; op < 7; op++) {
			int cnt = 0, mx = -1, u1 = -1, n1 = 0;
			unsigned long long h = 1469598103934665603ULL;
			cur[0] = w; cur[1] = pa; cur[2] = pb; cur[3] = op; curlen = 4;
			bv_fill(c, a, pa, w); bv_fill(c, b, pb, w);
			memset(r, 0x5a, c->nwords * sizeof(BitvWord));      /* result starts as junk */
			switch (op) {
			case 0: bitvAnd(c, r, a, b); break;
			case 1: bitvOr(c, r, a, b); break;
			case 2: bitvMinus(c, r, a, b); break;
			case 3: bitvNot(c, r, a); break;
			case 4: bitvCopy(c, r, a); break;
			case 5: bitvSetAll(c, r); break;
			case 6: bitvClearAll(c, r); break;
			}
			vh_seqs++; vh_steps++;
			bitvClearAll(c, e);
			for (i = 0; i < w; i++) {
				int x = bv_model(pa, i, w), y = bv_model(pb, i, w), want = 0;
				switch (op) { case 0: want = x && y; break; case 1: want = x || y; break; case 2: want = x && !y; break;
				case 3: want = !x; break; case 4: want = x; break; case 5: want = 1; break; case 6: want = 0; break; }
				if ((bitvTest(c, r, i) != 0) != want) { vh_violation("mode=bitv kind=bit w=%d a=%d b=%d op=%d bit=%d", w, pa, pb, op, i); break; }
				if (want) { cnt++; mx = i; bitvSet(c, e, i); n1++; u1 = i; }
				VH_MIX(h, want);
			}
			vh_outcome(h ^ (unsigned long long) w);
			if (bitvCount(c, r) != cnt) vh_violation("mode=bitv kind=count w=%d a=%d b=%d op=%d got=%d want=%d", w, pa, pb, op, bitvCount(c, r), cnt);
			if (bitvMax(c, r) != mx) vh_violation("mode=bitv kind=max w=%d a=%d b=%d op=%d got=%d want=%d", w, pa, pb, op, bitvMax(c, r), mx);
			if (!bitvEqual(c, r, e)) vh_violation("mode=bitv kind=equal-to-bitwise-built w=%d a=%d b=%d op=%d", w, pa, pb, op);
			if (bitvUnique1IndexInRange(c, r, 0, w) != (n1 == 1 ? u1 : -1)) vh_violation("mode=bitv kind=unique1 w=%d a=%d b=%d op=%d", w, pa, pb, op);
			if (bitvCountTo(c, r, w / 2) > cnt) vh_violation("mode=bitv kind=countTo w=%d", w);
			/* a and b must be untouched */
			for (i = 0; i < w; i++) if ((bitvTest(c, a, i) != 0) != bv_model(pa, i, w) || (bitvTest(c, b, i) != 0) != bv_model(pb, i, w)) { vh_violation("mode=bitv kind=operand-clobbered w=%d a=%d b=%d op=%d", w, pa, pb, op); break; }
			/* equality is extensional */
			{ int same = 1; for (i = 0; i < w; i++) if (bv_model(pa, i, w) != bv_model(pb, i, w)) same = 0;
			  if ((bitvEqual(c, a, b) != 0) != same) vh_violation("mode=bitv kind=equal w=%d a=%d b=%d", w, pa, pb); }
			/* in-place forms: r = a; r = r op b */
			if (op <= 2) {
				bitvCopy(c, r, a);
				if (op == 0) bitvAnd(c, r, r, b); else if (op == 1) bitvOr(c, r, r, b); else bitvMinus(c, r, r, b);
				if (!bitvEqual(c, r, e)) vh_violation("mode=bitv kind=inplace w=%d a=%d b=%d op=%d", w, pa, pb, op);
			}
		}
		/* single bit set/clear/test at every index */
		for (i = 0; i < w; i++) {
			int j;
			bitvClearAll(c, r); bitvSet(c, r, i);
			for (j = 0; j < w; j++) if ((bitvTest(c, r, j) != 0) != (i == j)) vh_violation("mode=bitv kind=set w=%d bit=%d probe=%d", w, i, j);
			if (bitvCount(c, r) != 1) vh_violation("mode=bitv kind=set-count w=%d bit=%d", w, i);
			bitvSetAll(c, r); bitvClear(c, r, i);
			for (j = 0; j < w; j++) if ((bitvTest(c, r, j) != 0) != (i != j)) vh_violation("mode=bitv kind=clear w=%d bit=%d probe=%d", w, i, j);
			vh_steps += 2;
		}
		if (w < 31) {
			int v;
			for (v = 0; v < (1 << w); v++) { Bitv x = bitvFromInt(c, v); if (bitvToInt(c, x) != v) vh_violation("mode=bitv kind=int-roundtrip w=%d v=%d", w, v); bitvFree(x); }
		}
		bitvFree(a); bitvFree(b); bitvFree(r); bitvFree(e);
		bitvClassDestroy(c);
	}
}

/* ======================================================================== dnf */
#define NA 4
#define NASG (1 << NA)
typedef struct { DNF d; unsigned tt; } F;
static F *fs; static int nf = 0, fcap = 0;
static unsigned dnf_tt(DNF x)
{
	unsigned tt = 0; int a, i; Length j;
	for (a = 0; a < NASG; a++) {
		int v = 0;
		for (i = 0; i < x->argc; i++) {
			DNF_And t = x->argv[i]; int ok = 1;
			for (j = 0; j < t->argc; j++) { int at = t->argv[j]; int var = abs(at) - 1; int val = (a >> var) & 1; if ((at > 0) != val) ok = 0; }
			if (ok) v = 1;
		}
		if (v) tt |= 1u << a;
	}
	return tt;
}
static void dnf_add(DNF d, unsigned tt) { if (nf == fcap) { fcap = fcap ? fcap * 2 : 4096; fs = realloc(fs, fcap * sizeof(F)); } fs[nf].d = d; fs[nf].tt = tt; nf++; }
static void dnf_show(const char *kind, DNF a, const char *op, DNF b, DNF r)
{
	if (vh_viol >= vh_maxviol) { vh_viol++; return; }
	vh_viol++;
	printf("VIOL mode=dnf kind=%s ", kind);
	if (a) dnfPrint(stdout, a);
	printf(" %s ", op);
	if (b) dnfPrint(stdout, b);
	if (r) { printf(" -> "); dnfPrint(stdout, r); }
	printf("\n");
}
static void dnf_all(int depth)
{
	const unsigned full = (1u << NASG) - 1;
	int i, j, lvl, start = 0, l1end;
	curmode = "dnf";
	dnf_add(dnfTrue(), full); dnf_add(dnfFalse(), 0);
	for (i = 1; i <= NA; i++) {
		unsigned tt = 0; int a;
		for (a = 0; a < NASG; a++) if ((a >> (i - 1)) & 1) tt |= 1u << a;
		dnf_add(dnfAtom(i), tt); dnf_add(dnfNotAtom(i), full & ~tt);
	}
	for (i = 0; i < nf; i++) { vh_seqs++; if (dnf_tt(fs[i].d) != fs[i].tt) dnf_show("atom", fs[i].d, "", 0, 0); }
	if (!dnfIsTrue(fs[0].d) || dnfIsTrue(fs[1].d) || !dnfIsFalse(fs[1].d) || dnfIsFalse(fs[0].d)) vh_violation("mode=dnf kind=isTrue/isFalse");
	l1end = nf;
	for (lvl = 1; lvl <= depth; lvl++) {
		int end = nf, keep = (lvl < depth) || lvl == 1;
		for (i = start; i < end; i++) {
			DNF n = dnfNot(fs[i].d); unsigned e = full & ~fs[i].tt;
			vh_seqs++; vh_steps++;
			cur[0] = lvl; cur[1] = i; cur[2] = -1; curlen = 3;
			if (dnf_tt(n) != e) dnf_show("not", 0, "not", fs[i].d, n);
			else { DNF nn = dnfNot(n); if (dnf_tt(nn) != fs[i].tt) dnf_show("notnot", 0, "not not", fs[i].d, nn); dnfFree(nn); }
			if ((dnfIsTrue(n) != 0) != (e == full) && dnf_tt(n) == e && dnfIsTrue(n)) dnf_show("isTrue", 0, "not", fs[i].d, n);
			vh_outcome(e + 7);
			if (keep) dnf_add(n, e); else dnfFree(n);
		}
		for (i = 0; i < end; i++) {
			if ((i % nshards) != shard && lvl == depth && depth > 1) continue;
			for (j = 0; j < end; j++) {
				DNF a, o; unsigned ea, eo;
				if (i < start && j < start) continue;
				cur[0] = lvl; cur[1] = i; cur[2] = j; curlen = 3;
				a = dnfAnd(fs[i].d, fs[j].d); o = dnfOr(fs[i].d, fs[j].d);
				ea = fs[i].tt & fs[j].tt; eo = fs[i].tt | fs[j].tt;
				vh_seqs += 2; vh_steps += 2;
				if (dnf_tt(a) != ea) dnf_show("and", fs[i].d, "and", fs[j].d, a);
				if (dnf_tt(o) != eo) dnf_show("or", fs[i].d, "or", fs[j].d, o);
				if (dnfIsTrue(a) && ea != full) dnf_show("isTrue", fs[i].d, "and", fs[j].d, a);
				if (dnfIsFalse(o) && eo != 0) dnf_show("isFalse", fs[i].d, "or", fs[j].d, o);
				/* operands must not have been changed */
				if (dnf_tt(fs[i].d) != fs[i].tt || dnf_tt(fs[j].d) != fs[j].tt) dnf_show("operand-clobbered", fs[i].d, "and/or", fs[j].d, 0);
				vh_outcome(((unsigned long long) ea << 16) | eo);
				if (keep) { dnf_add(a, ea); dnf_add(o, eo); } else { dnfFree(a); dnfFree(o); }
			}
		}
		if (lvl == 1) l1end = nf;
		start = end;
	}
	/* implies / equal against truth tables: all pairs up to level 1 */
	{
		int N = l1end;
		for (i = 0; i < N; i++) {
			if ((i % nshards) != shard) continue;
			for (j = 0; j < N; j++) {
				int sem = ((fs[i].tt & ~fs[j].tt) == 0), got, seq = (fs[i].tt == fs[j].tt), ge;
				cur[0] = 99; cur[1] = i; cur[2] = j; curlen = 3;
				got = dnfImplies(fs[i].d, fs[j].d) != 0;
				ge = dnfEqual(fs[i].d, fs[j].d) != 0;
				vh_seqs += 2; vh_steps += 2;
				if (got != sem) dnf_show(got ? "implies-unsound" : "implies-incomplete", fs[i].d, "=>", fs[j].d, 0);
				if (ge != seq) dnf_show(ge ? "equal-unsound" : "equal-incomplete", fs[i].d, "==", fs[j].d, 0);
			}
		}
	}
	printf("STAT dnf_formulas=%d level1=%d\n", nf, l1end);
}

/* dnf with 10 atoms: deterministic chains, checked on all 1024 assignments */
static int dnf_eval(DNF x, unsigned a)
{
	int i; Length j;
	for (i = 0; i < x->argc; i++) {
		DNF_And t = x->argv[i]; int ok = 1;
		for (j = 0; j < t->argc; j++) { int at = t->argv[j]; int var = abs(at) - 1; if ((at > 0) != (int)((a >> var) & 1)) { ok = 0; break; } }
		if (ok) return 1;
	}
	return 0;
}
static void dnf_big(void)
{
	enum { N = 10, NAS = 1 << N };
	static unsigned char ta[NAS], tb[NAS];
	int step, a, pat;
	curmode = "dnf10";
	for (pat = 0; pat < 24; pat++) {
		DNF acc = (pat & 1) ? dnfTrue() : dnfFalse();
		for (a = 0; a < NAS; a++) ta[a] = (pat & 1);
		for (step = 0; step < 14; step++) {
			/* term: (x_i op x_j') with indices walking deterministically */
			int i = (step * 3 + pat) % N + 1, j = (step * 7 + pat * 5 + 1) % N + 1;
			DNF l = ((step + pat) & 2) ? dnfNotAtom(i) : dnfAtom(i);
			DNF r = ((step + pat) & 4) ? dnfNotAtom(j) : dnfAtom(j);
			DNF t = ((step + pat / 2) & 1) ? dnfAnd(l, r) : dnfOr(l, r);
			DNF nacc;
			int useand = ((step + pat / 3) % 3 == 0), neg = ((step + pat) % 5 == 4);
			for (a = 0; a < NAS; a++) {
				int li = ((a >> (i - 1)) & 1) ^ (((step + pat) & 2) ? 1 : 0);
				int ri = ((a >> (j - 1)) & 1) ^ (((step + pat) & 4) ? 1 : 0);
				tb[a] = ((step + pat / 2) & 1) ? (li && ri) : (li || ri);
			}
			nacc = useand ? dnfAnd(acc, t) : dnfOr(acc, t);
			for (a = 0; a < NAS; a++) ta[a] = useand ? (ta[a] && tb[a]) : (ta[a] || tb[a]);
			if (neg) { DNF n2 = dnfNot(nacc); nacc = n2; for (a = 0; a < NAS; a++) ta[a] = !ta[a]; }
			cur[0] = pat; cur[1] = step; curlen = 2;
			vh_seqs++; vh_steps++;
			for (a = 0; a < NAS; a++) if (dnf_eval(nacc, a) != ta[a]) { vh_violation("mode=dnf10 kind=chain pat=%d step=%d assignment=%d", pat, step, a); break; }
			acc = nacc;
			if (acc->argc > 400) break;
		}
	}
}

/* ======================================================================== main */
int main(int argc, char **argv)
{
	const char *mode;
	int depth, seed;
	if (argc < 4) { fprintf(stderr, "usage\n"); return 2; }
	osInit();
	signal(SIGABRT, on_crash); signal(SIGSEGV, on_crash); signal(SIGBUS, on_crash); signal(SIGFPE, on_crash);
	mode = argv[1]; curmode = mode;
	if (!strcmp(argv[2], "replay")) {
		int ops[64], n, r = 1;
		seed = atoi(argv[3]); curseed = seed;
		n = vh_parse(argc > 4 ? argv[4] : "", ops, 64);
		memcpy(cur, ops, sizeof(int) * n); curlen = n;
		vh_maxviol = 100;
		if (!strcmp(mode, "table")) r = tbl_run(seed, ops, n, 0, 0);
		else if (!strcmp(mode, "btree")) { int i; for (i = 0; i <= n && r == 1; i++) r = bt_run(seed, ops, i, 0, 0); }
		else if (!strcmp(mode, "priq")) r = pq_run(seed, ops, n, 0, 0);
		printf("REPLAY %s\n", r == 1 ? "ok" : "violation");
		return r == 1 ? 0 : 1;
	}
	depth = atoi(argv[2]); seed = atoi(argv[3]); curseed = seed;
	if (argc > 5) { shard = atoi(argv[4]); nshards = atoi(argv[5]); }
	if (!strcmp(mode, "table")) tbl_dfs(seed, depth);
	else if (!strcmp(mode, "btree")) bt_dfs(seed, depth, 0);
	else if (!strcmp(mode, "priq")) pq_dfs(seed, depth, 0);
	else if (!strcmp(mode, "bitv")) bv_all();
	else if (!strcmp(mode, "dnf")) dnf_all(depth);
	else if (!strcmp(mode, "dnf10")) dnf_big();
	else return 2;
	vh_stats(mode);
	return vh_viol ? 1 : 0;
}
