"""The pinned corpus lib/axllib/test (programs the repository's own suite builds and runs), for differential checks."""
import os, re, shutil
from vlib import build as _b
from vlib.runners import TC, mkdir

T = _b.R + '/lib/axllib/test'


def names():
    try:
        return re.findall(r'check_PROGRAMS \+= (\S+)/\1', open(T + '/Tests.am').read())
    except OSError:
        return []


def run_one(tc, name, route, q, workdir, timeout=60):
    d = mkdir('%s/corp-%s-%s%s' % (workdir, name, route, ''.join(q)))
    shutil.copy('%s/%s/%s.as' % (T, name, name), d)
    try:
        if route == 'interp':
            r = tc.interp(d + '/%s.as' % name, q, d, timeout=timeout)
        else:
            exe, r = tc.cexe(d + '/%s.as' % name, q, d, timeout=timeout)
            if exe:
                r = tc.runexe(exe, timeout=timeout)
        return r
    finally:
        shutil.rmtree(d, ignore_errors=True)
