"""The pinned corpus lib/axllib/test (programs the repository's own suite builds and runs), for differential checks.
A corpus run has two stages: build (compiler, and gcc on the C route) and run.  Only the run stage is program behaviour;
a program whose build fails is outside the differential checks (many corpus files are tests of compiler diagnostics)."""
import os, re, shutil, tempfile
from vlib import build as _b
from vlib.runners import TC, mkdir

T = _b.R + '/lib/axllib/test'


def names():
    try:
        return re.findall(r'check_PROGRAMS \+= (\S+)/\1', open(T + '/Tests.am').read())
    except OSError:
        return []


class Out:
    __slots__ = ('stage', 'rc', 'timeout', 'sig', 'out')

    def __init__(self, stage, r):
        self.stage, self.rc, self.timeout, self.sig, self.out = stage, r.rc, r.timeout, r.sig, r.out

    def norm(self):
        # the interpreter's back-trace (frames depend on inlining, addresses on the build) is not program output
        t = re.sub(rb'^#\d+ [^\n]* in <[^\n]*> at unit \[[^\n]*\]\n', b'', self.out, flags=re.M)
        return re.sub(rb'^\.\.\.\n', b'', t, flags=re.M)

    def faulted(self):
        """ended by a fault of the run-time system (signal, or the interpreter's report of one), not by the program's own doing"""
        return self.stage == 'run' and (bool(self.sig) or b'Program fault' in self.out or b'Compiler bug' in self.out or b'Storage allocation error' in self.out)

    def key(self):
        """what is compared: stage reached, success/failure, and the bytes the program wrote"""
        return (self.stage, self.rc == 0, self.timeout, self.norm() if self.stage == 'run' else b'')


def run_one(tc, name, route, q, workdir, timeout=90, env=None, norand=True):
    """route 'c': generated C + gcc + executable; route 'interp': compile to .ao, then interpret the saved .ao (so that the
    compiler's own messages are not mixed into the program's output)"""
    d = tempfile.mkdtemp(prefix='corp-%s-%s%s-' % (name, route, ''.join(q)), dir=workdir)      # unique: the same job may run twice at once
    shutil.copy('%s/%s/%s.as' % (T, name, name), d)
    try:
        if route == 'interp':
            r = tc.aldor(list(q) + ['-Fao', name + '.as'], d, timeout=timeout)
            if r.rc != 0 or r.timeout or not os.path.exists('%s/%s.ao' % (d, name)):
                return Out('build', r)
            return Out('run', tc.aldor(['-Ginterp', name + '.ao'], d, timeout=timeout, env=env, norand=norand))
        exe, r = tc.cexe(d + '/%s.as' % name, q, d, timeout=timeout)
        if not exe:
            return Out('build', r)
        return Out('run', tc.runexe(exe, timeout=timeout, env=env, norand=norand))
    finally:
        shutil.rmtree(d, ignore_errors=True)


def matrix(ck, tc, routes, levels, workdir, repeat_first=True, only=None):
    """every corpus program x route x level; the first level is run a second time with address-space randomisation on and the heap
    moved by three pages (ALDOR_VERIF_HEAPPAD), so that a program whose output contains addresses or uninitialised values shows up as not
    reproducible and is left out;  -> {(name, route, level): [Out, ...]}"""
    from vlib.common import pmap
    ns = [n for n in names() if only is None or n in only]
    jobs = [(n, r, q, False) for n in ns for r in routes for q in levels] + ([(n, r, levels[0], True) for n in ns for r in routes] if repeat_first else [])

    def crun(j):
        n, r, q, pad = j
        if ck.expired():
            return j, None
        return j, run_one(tc, n, r, (q,), workdir, env={'ALDOR_VERIF_HEAPPAD': '3'} if pad else None, norand=not pad)
    got = {}
    for j, v in sorted(pmap(crun, jobs), key=lambda x: x[0]):
        if v is None:
            ck.cut('corpus run not done')
            continue
        got.setdefault(j[:3], []).append(v)
    return ns, got


def uses_foreign(name):
    """programs that import foreign (C / Lisp / Fortran) functions: the interpreter cannot call them, the routes are not comparable"""
    try:
        return bool(re.search(r'\bForeign\b', open('%s/%s/%s.as' % (T, name, name), errors='replace').read()))
    except OSError:
        return False
