"""Packed execution of abstract cases: 12 cases per compilation unit, each tagging its lines K<k>:"""
import os, re, shutil
from vlib import progspace
from vlib.runners import TC, mkdir, write

PACK = 12


def make_units(cases, pack=PACK):
    """cases: [(family, case)] -> [(base index, [(family, case)...])]"""
    return [(i, cases[i:i + pack]) for i in range(0, len(cases), pack)]


def unit_text(unit):
    base, cs = unit
    return progspace.render_unit([c for _, c in cs], base)


def unit_expected(unit):
    """{k: lines}; uncaught exceptions do not occur in packed families"""
    base, cs = unit
    exp = {}
    for i, (_, c) in enumerate(cs):
        out, unc = progspace.expected(base + i, c)
        exp[base + i] = out
    return exp


def split_output(text):
    by = {}
    for line in text.split('\n'):
        m = re.match(r'K(\d+):', line)
        if m:
            by.setdefault(int(m.group(1)), []).append(line)
    return by


def run_unit(tc, unit, route, q, workdir, name=None, keep=False, timeout=300, copts=()):
    """returns (Res, {k: lines}); route in interp / c / java"""
    base, cs = unit
    name = name or 'u%d' % base
    d = mkdir(os.path.join(workdir, '%s-%s-%s' % (name, route, '_'.join(x.strip('-') for x in q) or 'def')))
    src = write(os.path.join(d, name + '.as'), unit_text(unit))
    try:
        if route == 'interp':
            r = tc.interp(src, q, d, timeout=timeout)
        elif route == 'interp-ao':
            # compile to a saved object, then interpret the object (no front end in the second run)
            r = tc.aldor(list(q) + ['-Fao', os.path.basename(src)], d, timeout=timeout)
            if r.rc == 0 and not r.timeout:
                r = tc.aldor([tc.lib, '-Ginterp', name + '.ao'], d, timeout=timeout)
        elif route == 'c':
            exe, r = tc.cexe(src, q, d, copts=copts, timeout=timeout)
            if exe:
                r = tc.runexe(exe, timeout=timeout)
        else:
            step, r = tc.java(src, q, d, timeout=timeout)
        return r, split_output(r.text())
    finally:
        if not keep:
            shutil.rmtree(d, ignore_errors=True)
