"""E1 runners: compile and run Aldor programs on the interpreter, C and Java routes with the freshly built tree."""
import os, shutil, re
from vlib.common import run, Res
from vlib import build as _b

R = _b.R


class TC:
    """tool chain bound to one build and one library dialect ('aldor' = libaldor, 'foamlib')"""

    def __init__(self, b, dialect='aldor'):
        self.b = b
        self.dialect = dialect
        if dialect == 'aldor':
            self.flags = b.aldor_flags()
            self.link = b.link_aldor()
            self.lib = '-laldor'
        elif dialect == 'axllib':
            self.flags = b.axllib_flags()
            self.link = b.link_axllib()
            self.lib = '-laxllib'
        else:
            self.flags = b.foamlib_flags()
            self.link = b.link_foamlib()
            self.lib = '-lfoamlib'

    def aldor(self, args, cwd, timeout=120, env=None, stdin=None, mem_mb=None, norand=True):
        return run(self.b.base() + self.flags + list(args), cwd=cwd, timeout=timeout, env=env, stdin=stdin, merge=True, mem_mb=mem_mb, norand=norand)

    # -- interpreter -------------------------------------------------------------------------
    def interp(self, src, q=('-Q1',), cwd=None, timeout=120, env=None, extra=()):
        cwd = cwd or os.path.dirname(src)
        return self.aldor(list(q) + list(extra) + ['-Ginterp', os.path.basename(src)], cwd, timeout, env)

    # -- C route -------------------------------------------------------------------------------
    def cgen(self, src, q=('-Q1',), cwd=None, copts=(), timeout=120):
        cwd = cwd or os.path.dirname(src)
        return self.aldor(list(q) + list(copts) + ['-Fc', '-Fmain', os.path.basename(src)], cwd, timeout)

    def cc(self, cwd, cfiles, exe, timeout=300, ccflags=()):
        cmd = ['gcc'] + self.b.cflags() + list(ccflags) + list(cfiles) + self.link + ['-o', exe]
        return run(cmd, cwd=cwd, timeout=timeout, merge=True, norand=False)

    def cexe(self, src, q=('-Q1',), cwd=None, copts=(), timeout=120):
        """returns (exe path or None, Res of the failing step or of gcc)"""
        cwd = cwd or os.path.dirname(src)
        base = os.path.basename(src)[:-3]
        r = self.cgen(src, q, cwd, copts, timeout)
        if r.rc != 0 or r.timeout:
            return None, r
        cfiles = sorted(f for f in os.listdir(cwd) if f.endswith('.c') and (f == base + '.c' or f.startswith(base + '-') or re.match(re.escape(base) + r'\d+\.c$', f)))
        r2 = self.cc(cwd, cfiles, base + '.exe')
        if r2.rc != 0 or r2.timeout:
            return None, r2
        return os.path.join(cwd, base + '.exe'), r2

    def runexe(self, exe, cwd=None, timeout=60, env=None, stdin=None, norand=True):
        return run([exe], cwd=cwd or os.path.dirname(exe), timeout=timeout, env=env, stdin=stdin, merge=True, norand=norand)

    # -- Java route ----------------------------------------------------------------------------
    def java(self, src, q=('-Q1',), cwd=None, timeout=300):
        cwd = cwd or os.path.dirname(src)
        base = os.path.basename(src)[:-3]
        r = self.aldor(list(q) + ['-Fjava', '-Jmain', os.path.basename(src)], cwd, timeout)
        if r.rc != 0 or r.timeout:
            return 'aldor', r
        cp = self.b.classpath(self.dialect)
        r = run(['javac', '-nowarn', '-cp', cp, '-d', '.', 'aldorcode/%s.java' % base], cwd=cwd, timeout=timeout, merge=True, norand=False)
        if r.rc != 0 or r.timeout:
            return 'javac', r
        r = run(['java', '-Xss8m', '-cp', '.:' + cp, 'aldorcode.' + base], cwd=cwd, timeout=timeout, merge=True, norand=False,
                env={'JAVA_TOOL_OPTIONS': ''})
        return 'java', r


def mkdir(p):
    os.makedirs(p, exist_ok=True)
    return p


def write(path, text):
    mode = 'wb' if isinstance(text, bytes) else 'w'
    with open(path, mode) as f:
        f.write(text)
    return path
