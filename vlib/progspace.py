"""E1: abstract programs — a small typed language with a renderer to Aldor (libaldor dialect), an independent
reference evaluator written from the language guide, and enumerated families of cases.

A *case* is a closed procedure cK(): () whose output lines are tagged "K<k>:".  Integer type of a case is MI
(MachineInteger, 64-bit) or BI (Integer); exactly one of them is imported inside the case (two numeric domains in one
scope make literals ambiguous).  Expressions / statements are tuples; see `render_*` and `Eval` for the forms."""
import itertools

MIN64, MAX64 = -(1 << 63), (1 << 63) - 1


class OutOfSubset(Exception):
    """the abstract program leaves the defined subset (overflow, zero divisor, bad index): it is not generated"""


# ------------------------------------------------------------------------------------------------ renderer
def esc(s):
    return s.replace('_', '__').replace('"', '_"')


class Render:
    def __init__(self, itype):
        self.it = itype            # 'MI' or 'BI'
        self.tname = 'MachineInteger' if itype == 'MI' else 'Integer'
        self.ntry = 0

    def T(self, t):
        if t == 'I':
            return self.tname
        if t == 'Bool':
            return 'Boolean'
        if t == 'Str':
            return 'String'
        if t == 'LI':
            return 'List %s' % self.tname
        if t == 'AI':
            return 'Array %s' % self.tname
        if t == 'Rec':
            return 'Record(a: %s, b: %s)' % (self.tname, self.tname)
        if t == 'Fn':
            return '%s -> %s' % (self.tname, self.tname)
        if t == 'Gen':
            return 'Generator %s' % self.tname
        if t == 'Un':
            return 'Union(i: %s, s: String)' % self.tname
        raise ValueError(t)

    def e(self, x):
        k = x[0]
        if k == 'lit':
            v = x[1]
            if isinstance(v, bool):
                return 'true' if v else 'false'
            if isinstance(v, str):
                return '"%s"' % esc(v)
            return '(%d)' % v if v < 0 else '%d' % v
        if k == 'var':
            return x[1]
        if k == 'bin':
            if x[1] in ('gcd', 'lcm', 'max', 'min'):      # library functions written prefix
                return '%s(%s, %s)' % (x[1], self.e(x[2]), self.e(x[3]))
            return '(%s %s %s)' % (self.e(x[2]), x[1], self.e(x[3]))
        if k == 'neg':
            return '(- %s)' % self.e(x[1])
        if k == 'not':
            return '(not %s)' % self.e(x[1])
        if k == 'ife':
            return '(if %s then %s else %s)' % (self.e(x[1]), self.e(x[2]), self.e(x[3]))
        if k == 'call':
            return '%s(%s)' % (x[1], ', '.join(self.e(a) for a in x[2]))
        if k == 'lam':
            return '((%s: %s): %s +-> %s)' % (x[1], self.tname, self.tname, self.e(x[2]))
        if k == 'list':
            return '[%s]' % ', '.join(self.e(a) for a in x[1])
        if k == 'cons':
            return 'cons(%s, %s)' % (self.e(x[1]), self.e(x[2]))
        if k == 'first':
            return 'first(%s)' % self.e(x[1])
        if k == 'rest':
            return 'rest(%s)' % self.e(x[1])
        if k == 'len':
            return '(#%s)' % self.e(x[1])
        if k == 'reverse':
            return 'reverse(%s)' % self.e(x[1])
        if k == 'collect':     # ('collect', var, src, cond or None, body)
            c = ' | %s' % self.e(x[3]) if x[3] is not None else ''
            return '[%s for %s in %s%s]' % (self.e(x[4]), x[1], self.src(x[2]), c)
        if k == 'rec':
            return '[%s, %s]' % (self.e(x[1]), self.e(x[2]))
        if k == 'field':
            return '%s.%s' % (self.e(x[1]), x[2])
        if k == 'anew':
            return 'new(%s, %s)' % (self.e(x[1]), self.e(x[2]))
        if k == 'aget':
            return '%s.(%s)' % (self.e(x[1]), self.e(x[2]))
        if k == 'gen':         # ('gen', body)
            return 'generate {\n%s\n\t}' % self.block(x[1], 2)
        if k == 'uni':         # union of int
            return '[%s]' % self.e(x[1])
        if k == 'ucase':       # u case i
            return '(%s case %s)' % (self.e(x[1]), x[2])
        if k == 'uget':
            return '%s.%s' % (self.e(x[1]), x[2])
        if k == 'shift':
            return 'shift(%s, %s)' % (self.e(x[1]), self.e(x[2]))
        raise ValueError(x)

    def src(self, s):
        if s[0] == 'range':
            return '%s..%s' % (self.e(s[1]), self.e(s[2]))
        if s[0] == 'rangeby':
            return '%s..%s by %s' % (self.e(s[1]), self.e(s[2]), self.e(s[3]))
        return self.e(s[1])

    def block(self, body, ind):
        return '\n'.join(self.s(st, ind) for st in body)

    def s(self, st, ind=1):
        t = '\t' * ind
        k = st[0]
        if k == 'decl':
            return '%s%s: %s := %s;' % (t, st[1], self.T(st[2]), self.e(st[3]))
        if k == 'assign':
            return '%s%s := %s;' % (t, st[1], self.e(st[2]))
        if k == 'print':       # ('print', type, expr)
            p = {'I': 'pI' + self.it, 'Bool': 'pL', 'Str': 'pS'}[st[1]]
            return '%s%s(TAG, %s);' % (t, p, self.e(st[2]))
        if k == 'if':
            r = '%sif %s then {\n%s\n%s}' % (t, self.e(st[1]), self.block(st[2], ind + 1), t)
            if len(st) > 3 and st[3] is not None:
                r += ' else {\n%s\n%s}' % (self.block(st[3], ind + 1), t)
            return r + ';'
        if k == 'for':         # ('for', var, src, body)
            return '%sfor %s in %s repeat {\n%s\n%s};' % (t, st[1], self.src(st[2]), self.block(st[3], ind + 1), t)
        if k == 'for2':        # parallel iteration ('for2', v1, src1, v2, src2, body)
            return '%sfor %s in %s for %s in %s repeat {\n%s\n%s};' % (t, st[1], self.src(st[2]), st[3], self.src(st[4]), self.block(st[5], ind + 1), t)
        if k == 'forn':        # ('forn', [('for', var, src, filter or None) | ('while', cond), ...], body): iterators in lock step
            hd = ' '.join(('for %s in %s%s' % (i[1], self.src(i[2]), (' | ' + self.e(i[3])) if i[3] is not None else '')) if i[0] == 'for' else 'while ' + self.e(i[1])
                          for i in st[1])
            return '%s%s repeat {\n%s\n%s};' % (t, hd, self.block(st[2], ind + 1), t)
        if k == 'while':
            return '%swhile %s repeat {\n%s\n%s};' % (t, self.e(st[1]), self.block(st[2], ind + 1), t)
        if k == 'break':
            return t + 'break;'
        if k == 'iterate':
            return t + 'iterate;'
        if k == 'gbreak':      # c => break
            return '%s%s => break;' % (t, self.e(st[1]))
        if k == 'giterate':
            return '%s%s => iterate;' % (t, self.e(st[1]))
        if k == 'return':
            return '%sreturn %s;' % (t, self.e(st[1]))
        if k == 'exit':        # c => e   (early exit of the enclosing function body)
            return '%s%s => %s;' % (t, self.e(st[1]), self.e(st[2]))
        if k == 'value':       # final value of a function body
            return '%s%s' % (t, self.e(st[1]))
        if k == 'setfield':
            return '%s%s.%s := %s;' % (t, self.e(st[1]), st[2], self.e(st[3]))
        if k == 'aset':
            return '%s%s.(%s) := %s;' % (t, self.e(st[1]), self.e(st[2]), self.e(st[3]))
        if k == 'expr':
            return '%s%s;' % (t, self.e(st[1]))
        if k == 'yield':
            return '%syield %s;' % (t, self.e(st[1]))
        if k == 'fn':          # ('fn', name, [(p, T)], retT or None, body)
            ps = ', '.join('%s: %s' % (p, self.T(pt)) for p, pt in st[2])
            rt = self.T(st[3]) if st[3] else '()'
            # variables assigned here but declared in an enclosing function must be declared `free`
            fr = sorted(assigned(st[4]) - declared(st[4]) - set(p for p, _ in st[2]))
            pre = ''.join('%s\tfree %s;\n' % (t, v) for v in fr)
            return '%s%s(%s): %s == {\n%s%s\n%s};' % (t, st[1], ps, rt, pre, self.block(st[4], ind + 1), t)
        if k == 'throw':
            return '%sthrow %s;' % (t, st[1])
        if k == 'try':         # ('try', body, [(cat, handler body)], finally body or None)
            self.ntry += 1
            ev = 'E%d' % self.ntry
            hs = ''.join('%s\t%s has %s => {\n%s\n%s\t}\n' % (t, ev, c, self.block(hb, ind + 2), t) for c, hb in st[2])
            # an exception no alternative matches is passed on (`never` here would be a run-time error instead)
            r = '%stry {\n%s\n%s} catch %s in {\n%s%s\tthrow %s;\n%s}' % (t, self.block(st[1], ind + 1), t, ev, hs, t, ev, t)
            if st[3] is not None:
                r += ' finally {\n%s\n%s}' % (self.block(st[3], ind + 1), t)
            return r + ';'
        raise ValueError(st)


def _walk(body):
    for st in body:
        yield st
        k = st[0]
        if k == 'if':
            yield from _walk(st[2])
            if len(st) > 3 and st[3]:
                yield from _walk(st[3])
        elif k == 'for':
            yield from _walk(st[3])
        elif k == 'for2':
            yield from _walk(st[5])
        elif k == 'forn':
            yield from _walk(st[2])
        elif k == 'while':
            yield from _walk(st[2])
        elif k == 'try':
            yield from _walk(st[1])
            for _, hb in st[2]:
                yield from _walk(hb)
            if st[3]:
                yield from _walk(st[3])


def assigned(body):
    """names assigned in a function body (not inside nested function definitions)"""
    return set(st[1] for st in _walk(body) if st[0] == 'assign')


def declared(body):
    d = set()
    for st in _walk(body):
        if st[0] == 'decl':
            d.add(st[1])
        elif st[0] == 'for':
            d.add(st[1])
        elif st[0] == 'for2':
            d.add(st[1]); d.add(st[3])
        elif st[0] == 'forn':
            for i in st[1]:
                if i[0] == 'for':
                    d.add(i[1])
        elif st[0] == 'fn':
            d.add(st[1])
    return d


PRELUDE = '''#include "aldor"
#include "aldorio"
import from Boolean, String, Character, TextWriter;
define VExnA: Category == with;
VExA: VExnA == add;
define VExnB: Category == with;
VExB: VExnB == add;
pIMI(t: String, x: MachineInteger): () == { stdout << t << x << newline; }
pIBI(t: String, x: Integer): () == { stdout << t << x << newline; }
pL(t: String, x: Boolean): () == { stdout << t << x << newline; }
pS(t: String, x: String): () == { stdout << t << x << newline; }
'''


def render_case(k, case):
    """case = (itype, body) -> Aldor text of cK and the call; ('RAW', text, lines) is a template with @K@ placeholders"""
    if case[0] == 'RAW':
        return case[1].replace('@K@', str(k))
    it, body = case
    r = Render(it)
    text = r.block(body, 1).replace('TAG', '"K%d:"' % k)
    return 'c%d(): () == {\n\timport from %s;\n%s\n}\n' % (k, r.tname, text)


def render_unit(cases, base=0, calls=True):
    out = [PRELUDE]
    for i, c in enumerate(cases):
        out.append(render_case(base + i, c))
    if calls:
        for i in range(len(cases)):
            out.append('c%d();' % (base + i))
    return '\n'.join(out) + '\n'


# ------------------------------------------------------------------------------------------------ evaluator
class BreakEx(Exception):
    pass


class IterEx(Exception):
    pass


class ReturnEx(Exception):
    def __init__(self, v):
        self.v = v


class ThrowEx(Exception):
    def __init__(self, x):
        self.x = x


EXN_CAT = {'VExA': 'VExnA', 'VExB': 'VExnB'}


class Env:
    def __init__(self, parent=None):
        self.v = {}
        self.p = parent

    def find(self, n):
        e = self
        while e is not None:
            if n in e.v:
                return e
            e = e.p
        return None

    def get(self, n):
        e = self.find(n)
        if e is None:
            raise KeyError(n)
        return e.v[n]

    def set(self, n, val):
        e = self.find(n)
        (e or self).v[n] = val


class Closure:
    def __init__(self, params, body, env, isexpr=False):
        self.params, self.body, self.env, self.isexpr = params, body, env, isexpr


class Eval:
    """direct interpreter of the abstract language; MI is 64-bit two's complement (leaving it is OutOfSubset),
    quo truncates, rem has the dividend's sign, mod is non-negative"""

    def __init__(self, itype, tag):
        self.it = itype
        self.tag = tag
        self.out = []
        self.steps = 0

    def num(self, v):
        if self.it == 'MI' and not (MIN64 <= v <= MAX64):
            raise OutOfSubset('overflow')
        if abs(v) > 1 << 400:
            raise OutOfSubset('too big')
        return v

    def e(self, x, env):
        k = x[0]
        if k == 'lit':
            return x[1]
        if k == 'var':
            return env.get(x[1])
        if k == 'bin':
            op = x[1]
            if op == 'and':       # `and` / `or` are the language's short-circuit forms
                return self.e(x[3], env) if self.e(x[2], env) else False
            if op == 'or':
                return True if self.e(x[2], env) else self.e(x[3], env)
            a = self.e(x[2], env)
            b = self.e(x[3], env)
            if op == '+':
                return self.num(a + b)
            if op == '-':
                return self.num(a - b)
            if op == '*':
                return self.num(a * b)
            if op in ('quo', 'rem', 'mod'):
                if b == 0:
                    raise OutOfSubset('zero divisor')
                if self.it == 'MI' and a == MIN64 and b == -1:
                    raise OutOfSubset('min quo/rem/mod -1 overflows the machine division')
                q = abs(a) // abs(b)
                if (a < 0) != (b < 0):
                    q = -q
                if op == 'quo':
                    return self.num(q)
                if op == 'rem':
                    return a - q * b
                if b < 0:
                    raise OutOfSubset('negative modulus')
                return a % b
            if op in ('gcd', 'lcm'):
                import math
                if self.it == 'MI' and (a == MIN64 or b == MIN64):
                    raise OutOfSubset('magnitude of the most negative value')
                g = math.gcd(a, b)             # non-negative, gcd(0, 0) = 0
                if op == 'gcd':
                    return self.num(g)
                if g == 0:
                    raise OutOfSubset('lcm(0, 0)')
                return self.num(abs(a // g * b))
            if op == 'max':
                return max(a, b)
            if op == 'min':
                return min(a, b)
            if op == '<':
                return a < b
            if op == '<=':
                return a <= b
            if op == '>':
                return a > b
            if op == '>=':
                return a >= b
            if op == '=':
                return a == b
            if op == '~=':
                return a != b
            raise ValueError(op)
        if k == 'neg':
            return self.num(-self.e(x[1], env))
        if k == 'not':
            return not self.e(x[1], env)
        if k == 'ife':
            return self.e(x[2], env) if self.e(x[1], env) else self.e(x[3], env)
        if k == 'call':
            f = env.get(x[1])
            args = [self.e(a, env) for a in x[2]]
            return self.apply(f, args)
        if k == 'lam':
            return Closure([x[1]], x[2], env, isexpr=True)
        if k == 'list':
            return tuple(self.e(a, env) for a in x[1])
        if k == 'cons':
            return (self.e(x[1], env),) + self.e(x[2], env)
        if k == 'first':
            l = self.e(x[1], env)
            if not l:
                raise OutOfSubset('first of empty')
            return l[0]
        if k == 'rest':
            l = self.e(x[1], env)
            if not l:
                raise OutOfSubset('rest of empty')
            return l[1:]
        if k == 'len':
            return len(self.e(x[1], env))
        if k == 'reverse':
            return tuple(reversed(self.e(x[1], env)))
        if k == 'collect':
            res = []
            for v in self.iterate(x[2], env):
                le = Env(env)
                le.v[x[1]] = v
                if x[3] is None or self.e(x[3], le):
                    res.append(self.e(x[4], le))
            return tuple(res)
        if k == 'rec':
            return {'a': self.e(x[1], env), 'b': self.e(x[2], env)}
        if k == 'field':
            return self.e(x[1], env)[x[2]]
        if k == 'anew':
            n = self.e(x[1], env)
            if n < 0 or n > 1000:
                raise OutOfSubset('array size')
            return [self.e(x[2], env)] * n
        if k == 'aget':
            a = self.e(x[1], env)
            i = self.e(x[2], env)
            if not (0 <= i < len(a)):
                raise OutOfSubset('index')
            return a[i]
        if k == 'gen':
            return ('generator', x[1], env)
        if k == 'uni':
            return ('i', self.e(x[1], env))
        if k == 'ucase':
            return self.e(x[1], env)[0] == x[2]
        if k == 'uget':
            u = self.e(x[1], env)
            if u[0] != x[2]:
                raise OutOfSubset('wrong union branch')
            return u[1]
        if k == 'shift':
            a = self.e(x[1], env)
            n = self.e(x[2], env)
            if not (-62 <= n <= 62):
                raise OutOfSubset('shift count')
            # right shifts are arithmetic (floor), as the builtin is defined (C04); left shifts must not overflow
            return self.num(a << n) if n >= 0 else a >> (-n)
        raise ValueError(x)

    def apply(self, f, args):
        self.steps += 1
        if self.steps > 200000:
            raise OutOfSubset('too long')
        if not isinstance(f, Closure):
            raise OutOfSubset('not callable')
        env = Env(f.env)
        for p, a in zip(f.params, args):
            env.v[p] = a
        if f.isexpr:
            return self.e(f.body, env)
        try:
            v = self.run(f.body, env)
        except ReturnEx as r:
            return r.v
        return v

    def iterate(self, src, env):
        if src[0] == 'range':
            lo, hi = self.e(src[1], env), self.e(src[2], env)
            if hi - lo > 5000:
                raise OutOfSubset('long range')
            return iter(range(lo, hi + 1))
        if src[0] == 'rangeby':
            lo, hi, st = self.e(src[1], env), self.e(src[2], env), self.e(src[3], env)
            if st == 0:
                raise OutOfSubset('zero step')
            return iter(range(lo, hi + (1 if st > 0 else -1), st))
        v = self.e(src[1], env)
        if isinstance(v, tuple) and len(v) == 3 and v[0] == 'generator':
            return self.gen_iter(v[1], Env(v[2]))
        return iter(v)

    def gen_iter(self, body, env):
        try:
            yield from self.x(body, env)
        except ReturnEx:
            return

    def run(self, body, env):
        """run a non-generator body; returns the value of a trailing ('value', e) or of an ('exit', ...)"""
        val = None
        for y in self.x(body, env, top=True):
            if isinstance(y, tuple) and y and y[0] == '__value':
                val = y[1]
            else:
                raise OutOfSubset('yield outside generator')
        return val

    def x(self, body, env, top=False):
        """generator: executes statements, yielding generator values; ('__value', v) reports a function body's value"""
        for st in body:
            self.steps += 1
            if self.steps > 200000:
                raise OutOfSubset('too long')
            k = st[0]
            if k == 'decl':
                env.v[st[1]] = self.e(st[3], env)
            elif k == 'assign':
                env.set(st[1], self.e(st[2], env))
            elif k == 'print':
                v = self.e(st[2], env)
                if isinstance(v, bool):
                    v = 'T' if v else 'F'
                self.out.append('%s%s' % (self.tag, v))
            elif k == 'if':
                if self.e(st[1], env):
                    yield from self.x(st[2], env)
                elif len(st) > 3 and st[3] is not None:
                    yield from self.x(st[3], env)
            elif k in ('for', 'for2'):
                if k == 'for':
                    its = [(st[1], self.iterate(st[2], env))]
                    body2 = st[3]
                else:
                    its = [(st[1], self.iterate(st[2], env)), (st[3], self.iterate(st[4], env))]
                    body2 = st[5]
                le = Env(env)
                while True:
                    try:
                        for n, it in its:
                            le.v[n] = next(it)
                    except StopIteration:
                        break
                    try:
                        yield from self.x(body2, le)
                    except BreakEx:
                        break
                    except IterEx:
                        continue
            elif k == 'forn':
                # the iterators are advanced in the order written; a `for` whose filter rejects the value starts the next round
                # (every iterator written before it has moved, those after it have not); the first exhausted `for` or false
                # `while` ends the loop
                le = Env(env)
                its = [(i, self.iterate(i[2], env) if i[0] == 'for' else None) for i in st[1]]
                done = False
                while not done:
                    self.steps += 1
                    if self.steps > 200000:
                        raise OutOfSubset('too long')
                    again = False
                    for i, it in its:
                        if i[0] == 'for':
                            try:
                                le.v[i[1]] = next(it)
                            except StopIteration:
                                done = True
                                break
                            if i[3] is not None and not self.e(i[3], le):
                                again = True
                                break
                        elif not self.e(i[1], le):
                            done = True
                            break
                    if done:
                        break
                    if again:
                        continue
                    try:
                        yield from self.x(st[2], le)
                    except BreakEx:
                        break
                    except IterEx:
                        continue
            elif k == 'while':
                while self.e(st[1], env):
                    self.steps += 1
                    if self.steps > 200000:
                        raise OutOfSubset('too long')
                    try:
                        yield from self.x(st[2], env)
                    except BreakEx:
                        break
                    except IterEx:
                        continue
            elif k == 'break':
                raise BreakEx()
            elif k == 'iterate':
                raise IterEx()
            elif k == 'gbreak':
                if self.e(st[1], env):
                    raise BreakEx()
            elif k == 'giterate':
                if self.e(st[1], env):
                    raise IterEx()
            elif k == 'return':
                raise ReturnEx(self.e(st[1], env))
            elif k == 'exit':
                if self.e(st[1], env):
                    raise ReturnEx(self.e(st[2], env))
            elif k == 'value':
                yield ('__value', self.e(st[1], env))
            elif k == 'setfield':
                self.e(st[1], env)[st[2]] = self.e(st[3], env)
            elif k == 'aset':
                a = self.e(st[1], env)
                i = self.e(st[2], env)
                if not (0 <= i < len(a)):
                    raise OutOfSubset('index')
                a[i] = self.e(st[3], env)
            elif k == 'expr':
                self.e(st[1], env)
            elif k == 'yield':
                yield self.e(st[1], env)
            elif k == 'fn':
                env.v[st[1]] = Closure([p for p, _ in st[2]], st[4], env)
            elif k == 'throw':
                raise ThrowEx(st[1])
            elif k == 'try':
                try:
                    try:
                        yield from self.x(st[1], env)
                    except ThrowEx as t:
                        for cat, hb in st[2]:
                            if EXN_CAT[t.x] == cat:
                                yield from self.x(hb, env)
                                break
                        else:
                            raise
                finally:
                    if st[3] is not None:
                        for _ in self.x(st[3], env):
                            pass
            else:
                raise ValueError(st)


def expected(k, case):
    """(lines, uncaught) for case k; raises OutOfSubset"""
    if case[0] == 'RAW':
        return [l.replace('@K@', str(k)) for l in case[2]], None
    it, body = case
    ev = Eval(it, 'K%d:' % k)
    env = Env()
    try:
        ev.run(body, env)
    except ReturnEx:
        pass
    except ThrowEx as t:
        return ev.out, t.x
    except (BreakEx, IterEx):
        raise OutOfSubset('break outside loop')
    except RecursionError:
        raise OutOfSubset('recursion')
    return ev.out, None


def in_subset(case):
    try:
        out, unc = expected(0, case)
        return True
    except (OutOfSubset, KeyError, TypeError, IndexError, RecursionError):
        return False
