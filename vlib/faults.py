"""Classification of compiler runs and fault-site extraction (gdb batch) for stable finding keys."""
import re, os, subprocess
from vlib.common import run, CLEAN_ENV

BAD_TEXT = [('Program fault', 'fault'), ('Bug:', 'bug'), ('Compiler bug', 'bug'), ('Assertion failed', 'assert'),
            ('assertion failed', 'assert'), ('Storage allocation error', 'storage')]
ALLOC_FRAMES = re.compile(r'^(sto[A-Z]|pieces|pages|pgmap|mxmem|fxmem|btree|osAlloc|bug$|bugWarning|exitFailure|compSignalHandler|abort|raise|__|_IO|memcpy|memset|str[a-z]+$|listNConcat|listFree)')


def classify(r):
    """-> (class, detail); class in ok / hang / signal / fault / bug / assert / storage"""
    if r.timeout:
        return 'hang', ''
    t = r.text()
    for pat, cls in BAD_TEXT:
        if pat in t:
            m = re.search(re.escape(pat) + r'[^\n]*', t)
            return cls, m.group(0)[:120] if m else pat
    if r.sig:
        return 'signal', 'signal %d' % r.sig
    return 'ok', ''


def error_printed(text):
    return bool(re.search(r'\((Error|Fatal Error)\)', text))


def fault_site(cmd, cwd, timeout=60, stdin_file=None):
    """top three repository frames of the failing run (skipping allocator / libc / reporting frames)"""
    gdbcmds = ['gdb', '-batch', '-ex', 'set confirm off', '-ex', 'handle SIGSEGV stop nopass', '-ex', 'handle SIGABRT stop nopass',
               '-ex', 'break bug', '-ex', 'break _do_assert', '-ex', 'run' + (' < %s' % stdin_file if stdin_file else ''), '-ex', 'bt 40', '--args'] + list(cmd)
    try:
        p = subprocess.run(gdbcmds, cwd=cwd, env=dict(CLEAN_ENV), stdout=subprocess.PIPE, stderr=subprocess.STDOUT, timeout=timeout,
                           text=True, errors='replace', stdin=subprocess.DEVNULL)
    except subprocess.TimeoutExpired:
        return 'unknown(gdb-timeout)'
    frames = re.findall(r'^#\d+\s+(?:0x[0-9a-f]+ in )?([A-Za-z_][A-Za-z0-9_]*) \(', p.stdout, re.M)
    keep = [f for f in frames if not ALLOC_FRAMES.match(f) and f not in ('main', 'compCmd')]
    if not keep:
        return 'unknown'
    return '<'.join(keep[:3])
