"""Differential engine over abstract cases: packed runs per configuration, unpacked re-run of anything abnormal,
verdicts taken per case on the unpacked result."""
import hashlib, os
from vlib import progrun, progspace
from vlib.common import pmap


def case_id(fam, case):
    return '%s:%s' % (fam, hashlib.sha1(repr(case).encode()).hexdigest()[:10])


def cfg_label(cfg):
    route, q = cfg[0], cfg[1]
    return '%s:%s' % (route, ','.join(q) or 'default') + (':' + ','.join(cfg[2]) if len(cfg) > 2 and cfg[2] else '')


class Outcome:
    """result of one case under one configuration"""
    __slots__ = ('lines', 'status')     # status: 'ok' | 'fail:<rc>' | 'timeout' | 'compile-fail'

    def __init__(self, lines, status):
        self.lines = lines
        self.status = status

    def key(self):
        return (tuple(self.lines), self.status)


def run_configs(ck, tc, cases, configs, pack=progrun.PACK, timeout=300, expected=None, progress=None):
    """cases: [(family, case)], configs: [(route, q[, copts])] -> {cfg_label: {k: Outcome}}
    Packed first; a unit that ends abnormally, or (when `expected` is given) whose lines differ from it, is re-run
    one case per file for that configuration."""
    units = progrun.make_units(cases, pack)
    jobs = [(u, c) for c in configs for u in units]
    res = {cfg_label(c): {} for c in configs}

    def one(job):
        u, cfg = job
        if ck.expired():
            return job, None, None
        copts = cfg[2] if len(cfg) > 2 else ()
        r, by = progrun.run_unit(tc, u, cfg[0], cfg[1], ck.work, timeout=timeout, copts=copts)
        return job, r, by

    redo = []
    for job, r, by in pmap(one, jobs):
        u, cfg = job
        lab = cfg_label(cfg)
        base, cs = u
        if r is None:
            ck.cut('unit %d under %s not run' % (base, lab))
            continue
        ck.count(len(cs))
        abnormal = r.timeout or r.rc != 0
        for i in range(len(cs)):
            k = base + i
            lines = by.get(k, [])
            if abnormal or (expected is not None and lines != expected[k]):
                redo.append((k, cfg))
            else:
                res[lab][k] = Outcome(lines, 'ok')

    def single(job):
        k, cfg = job
        if ck.expired():
            return job, None, None
        copts = cfg[2] if len(cfg) > 2 else ()
        r, by = progrun.run_unit(tc, (k, [cases[k]]), cfg[0], cfg[1], ck.work, name='s%d' % k, timeout=timeout, copts=copts)
        return job, r, by
    for job, r, by in pmap(single, redo):
        k, cfg = job
        lab = cfg_label(cfg)
        if r is None:
            ck.cut('case %d under %s not re-run' % (k, lab))
            continue
        ck.count(1)
        if r.timeout:
            st = 'timeout'
        elif r.rc != 0:
            st = 'fail:%s' % r.rc
        else:
            st = 'ok'
        o = Outcome(by.get(k, []), st)
        res[lab][k] = o
        if st != 'ok':
            o.lines = o.lines + ['<<%s>> %s' % (st, r.text()[-300:].replace('\n', ' | '))]
    return res


def replay_files(tc, fam, case, k, cfgs):
    """files and commands for a replay directory"""
    text = progspace.render_unit([case], k)
    cmds = []
    for cfg in cfgs:
        route, q = cfg[0], cfg[1]
        copts = cfg[2] if len(cfg) > 2 else ()
        al = ' '.join(tc.b.base() + tc.flags + list(q) + list(copts))
        if route == 'interp':
            cmds.append('%s -Ginterp case.as' % al)
        elif route == 'c':
            cmds.append('%s -Fc -Fmain case.as && gcc %s case*.c %s -o case.exe && ./case.exe' % (al, ' '.join(tc.b.cflags()), ' '.join(tc.link)))
        else:
            cmds.append('%s -Fjava -Jmain case.as && javac -cp %s -d . aldorcode/case.java && java -cp .:%s aldorcode.case' % (al, tc.b.classpath(tc.dialect), tc.b.classpath(tc.dialect)))
    return {'case.as': text}, cmds
