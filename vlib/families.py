"""Enumerated families of abstract programs (see DESIGN.md §3.2).  Every family is enumerated completely within its
bound; members outside the defined subset (overflow, zero divisor, ...) are dropped by the reference evaluator."""
import itertools
from vlib.progspace import in_subset

L = lambda v: ('lit', v)
V = lambda n: ('var', n)
B = lambda op, a, b: ('bin', op, a, b)
P = lambda e: ('print', 'I', e)
PB = lambda e: ('print', 'Bool', e)


def chunks(lst, n):
    return [lst[i:i + n] for i in range(0, len(lst), n)]


# ------------------------------------------------------------------------------------------ F1 arithmetic
MI_LITS = [0, 1, -1, 2, -2, 7, (1 << 31) - 1, (1 << 31) + 1, 1 << 32, 1 << 62, (1 << 63) - 1, -(1 << 63) + 1]
BI_LITS = [0, 1, -1, (1 << 63) - 1, (1 << 63) + 1, 1 << 64, 10 ** 20, -(10 ** 20), (1 << 200) - 1]
AOPS = ['+', '-', '*', 'quo', 'rem', 'mod', 'gcd', 'max', 'min']
COPS = ['<', '<=', '=', '~=', '>', '>=']


def f1(tier):
    cases = []
    for it, lits in (('MI', MI_LITS), ('BI', BI_LITS)):
        small = lits[:6] + lits[-2:]
        stmts = []
        # depth 1: every operator on every ordered pair; once on literals (folded), once through parameters
        for op in AOPS + COPS:
            for a in lits:
                for b in lits:
                    e1 = B(op, L(a), L(b))
                    e2 = ('call', 'h' + str(AOPS.index(op) if op in AOPS else len(AOPS) + COPS.index(op)), [L(a), L(b)])
                    pr = P if op in AOPS else PB
                    stmts.append(('pair', op, [pr(e1), pr(e2)]))
        # depth 2
        trip = small if tier == 'thorough' else small[:5]
        ops2 = AOPS if tier == 'thorough' else ['+', '-', '*', 'quo', 'rem']
        for o1 in ops2:
            for o2 in ops2:
                for a in trip:
                    for b in trip:
                        for c in trip:
                            stmts.append(('tri', None, [P(B(o2, B(o1, V('x'), V('y')), V('z'))), P(B(o1, V('x'), B(o2, V('y'), V('z'))))], (a, b, c)))
        # shifts: every literal (negative ones too) by every count of a boundary set, once on literals and once through parameters
        for a in (lits if it == 'MI' else []):      # the count is a MachineInteger: one numeric domain per scope
            for n in (-62, -33, -32, -31, -8, -1, 0, 1, 8, 31, 32, 33, 62):
                stmts.append(('pair', 'shift', [P(('shift', L(a), L(n))), P(('call', 'hs', [L(a), L(n)]))]))
        # build cases: helper functions + groups of statements that are in the subset
        helpers = [('fn', 'hs', [('p', 'I'), ('q', 'I')], 'I', [('value', ('shift', V('p'), V('q')))])] if it == 'MI' else []
        for i, op in enumerate(AOPS + COPS):
            helpers.append(('fn', 'h%d' % i, [('p', 'I'), ('q', 'I')], 'I' if op in AOPS else 'Bool', [('value', B(op, V('p'), V('q')))]))
        cur = []
        for s in stmts:
            if s[0] == 'pair':
                for st in s[2]:
                    if in_subset((it, helpers + [st])):
                        cur.append(st)
            else:
                a, b, c = s[3]
                pre = [('assign', 'x', L(a)), ('assign', 'y', L(b)), ('assign', 'z', L(c))]
                ok = [st for st in s[2] if in_subset((it, [('decl', 'x', 'I', L(a)), ('decl', 'y', 'I', L(b)), ('decl', 'z', 'I', L(c)), st]))]
                if ok:
                    cur.append(('__grp', pre + ok))
        flat = []
        for group in chunks(cur, 24):
            body = list(helpers) + [('decl', 'x', 'I', L(0)), ('decl', 'y', 'I', L(0)), ('decl', 'z', 'I', L(0))]
            for g in group:
                if g[0] == '__grp':
                    body += g[1]
                else:
                    body.append(g)
            flat.append((it, body))
        cases += flat
    return cases


# ------------------------------------------------------------------------------------------ F3 control
F3_ATOMS = ['acc', 'sq', 'iter2', 'iter3', 'brk4', 'print', 'ret30', 'nest', 'ifelse', 'giter', 'gbrk']


def f3_atom(a):
    i, s = V('i'), V('s')
    if a == 'acc':
        return [('assign', 's', B('+', s, B('*', i, L(2))))]
    if a == 'sq':
        return [('assign', 's', B('+', B('*', s, L(2)), L(1)))]
    if a == 'iter2':
        return [('if', B('=', i, L(2)), [('iterate',)], None)]
    if a == 'iter3':
        return [('if', B('=', B('rem', i, L(3)), L(0)), [('iterate',)], None)]
    if a == 'giter':
        return [('giterate', B('=', i, L(2)))]
    if a == 'brk4':
        return [('if', B('>', i, L(4)), [('break',)], None)]
    if a == 'gbrk':
        return [('gbreak', B('>', i, L(4)))]
    if a == 'print':
        return [P(B('+', B('*', i, L(1000)), s))]
    if a == 'ret30':
        return [('if', B('>', s, L(30)), [('return', s)], None)]
    if a == 'ifelse':
        return [('if', B('=', B('rem', i, L(2)), L(0)), [('assign', 's', B('+', s, L(1)))], [('assign', 's', B('-', s, L(3)))])]
    if a == 'nest':
        j = V('j')
        return [('for', 'j', ('range', L(1), L(3)), [('giterate', B('=', j, L(2))), ('assign', 's', B('+', s, j)),
                                                    ('gbreak', B('=', B('rem', s, L(7)), L(0)))])]
    raise ValueError(a)


def f3(tier):
    cases = []
    maxlen = 3
    atoms = F3_ATOMS if tier == 'thorough' else [a for a in F3_ATOMS if a not in ('giter', 'gbrk')]
    for n in range(1, maxlen + 1):
        for body in itertools.product(atoms, repeat=n):
            for kind in ('for', 'while', 'forlist'):
                for lo, hi in ((1, 6), (1, 0), (3, 3)):
                    if (lo, hi) != (1, 6) and n > 2:
                        continue
                    if kind == 'forlist' and (n > 2 or (lo, hi) == (3, 3)):
                        continue
                    stmts = [x for a in body for x in f3_atom(a)]
                    if kind == 'for':
                        loop = [('for', 'i', ('range', L(lo), L(hi)), stmts)]
                    elif kind == 'forlist':
                        loop = [('decl', 'li', 'LI', ('list', [L(v) for v in range(lo, hi + 1)])), ('for', 'i', ('list', V('li')), stmts)]
                    else:
                        loop = [('decl', 'i0', 'I', L(lo)),
                                ('while', B('<=', V('i0'), L(hi)), [('decl', 'i', 'I', V('i0')), ('assign', 'i0', B('+', V('i0'), L(1)))] + stmts)]
                    fn = ('fn', 'w', [], 'I', [('decl', 's', 'I', L(0))] + loop + [('value', B('+', V('s'), L(100000)))])
                    cases.append(('MI', [fn, P(('call', 'w', []))]))
    return cases


def f3p(tier):
    """several iterators in lock step: every ordered selection of 2..3 iterators of different kinds (counted range, list,
    second range, `while` with a side-effecting condition), each `for` with and without a filter, lengths equal and unequal"""
    odd = lambda v: B('=', B('rem', V(v), L(2)), L(1))
    I = [('for', 'i', ('range', L(1), L(6)), None), ('for', 'i', ('range', L(1), L(6)), odd('i')), ('for', 'i', ('range', L(1), L(6)), B('>', V('i'), L(2))),
         ('for', 'i', ('range', L(1), L(3)), None), ('for', 'i', ('range', L(1), L(3)), odd('i'))]
    X = [('for', 'x', ('list', V('lx')), None), ('for', 'x', ('list', V('lx')), odd('x')), ('for', 'x', ('list', V('lx')), B('=', B('rem', V('x'), L(2)), L(0))),
         ('for', 'x', ('list', V('ls')), None), ('for', 'x', ('list', V('ls')), odd('x'))]
    Y = [('for', 'y', ('range', L(100), L(103)), None), ('for', 'y', ('range', L(100), L(109)), B('=', B('rem', V('y'), L(3)), L(0)))]
    W = [('while', B('<', ('call', 'tk', []), L(5))), ('while', B('<', ('call', 'tk', []), L(9)))]
    kinds = {'I': I, 'X': X, 'Y': Y, 'W': W}
    tk = ('fn', 'tk', [], 'I', [('assign', 'c', B('+', V('c'), L(1))), ('value', V('c'))])
    C = []
    for n in (2, 3):
        for sel in itertools.permutations('IXYW', n):
            for its in itertools.product(*[kinds[k] for k in sel]):
                if tier == 'quick' and n == 3:
                    # quick: triples with exactly one filtered `for`, and that one not written first
                    flt = [j for j, i in enumerate(its) if i[0] == 'for' and i[3] is not None]
                    if len(flt) != 1 or flt[0] == 0:
                        continue
                val = L(0)
                for v, m in (('i', 10000), ('x', 100), ('y', 1)):
                    if any(i[0] == 'for' and i[1] == v for i in its):
                        val = B('+', val, B('*', V(v), L(m)))
                body = [('decl', 'c', 'I', L(0)), tk, ('decl', 'lx', 'LI', ('list', [L(v) for v in range(10, 16)])), ('decl', 'ls', 'LI', ('list', [L(v) for v in range(10, 13)])),
                        ('forn', list(its), [P(val)]), P(V('c'))]
                C.append(('MI', body))
    return C


# ------------------------------------------------------------------------------------------ F4 generators
def f4(tier):
    cases = []
    vals = [lambda i: i, lambda i: B('*', i, i), lambda i: L(7)]
    atoms = ['y', 'fory', 'ify', 'nesty', 'ret', 'py']

    def gatom(a, v, n):
        i = V('g%d' % n)
        if a == 'y':
            return [('yield', v(L(n + 1)))]
        if a == 'fory':
            return [('for', 'g%d' % n, ('range', L(1), L(3)), [('yield', v(i))])]
        if a == 'ify':
            return [('if', B('>', V('lim'), L(1)), [('yield', v(L(5)))], None)]
        if a == 'nesty':
            return [('for', 'g%d' % n, ('range', L(1), L(2)), [('for', 'h%d' % n, ('range', L(1), L(2)), [('yield', B('+', B('*', i, L(10)), V('h%d' % n)))])])]
        if a == 'ret':      # loop inside the generator left by break / continued by iterate
            return [('for', 'g%d' % n, ('range', L(1), L(5)), [('gbreak', B('>', i, V('lim'))), ('giterate', B('=', i, L(2))), ('yield', B('*', i, L(100)))])]
        if a == 'py':
            return [P(B('+', L(500), V('lim')))]                                  # side effect interleaved with the consumer
        raise ValueError(a)
    consumers = ['for', 'collect', 'par', 'brk', 'sum']
    maxn = 3 if tier == 'thorough' else 2
    for n in range(1, maxn + 1):
        for body in itertools.product(atoms, repeat=n):
            if not any(a in ('y', 'fory', 'ify', 'nesty', 'ret') for a in body):
                continue
            for vi, v in enumerate(vals):
                if vi > 0 and n > 2:
                    continue
                for cons in consumers:
                    for lim in (1, 3):
                        if lim == 1 and not any(a in ('ify', 'ret', 'py') for a in body):
                            continue
                        gb = [x for k, a in enumerate(body) for x in gatom(a, v, k)]
                        pre = [('decl', 'lim', 'I', L(lim)), ('decl', 'gg', 'Gen', ('gen', gb))]
                        if cons == 'for':
                            use = [('for', 'x', ('gen', V('gg')), [P(V('x'))])]
                        elif cons == 'collect':
                            use = [('decl', 'cl', 'LI', ('collect', 'x', ('gen', V('gg')), None, B('+', V('x'), L(1)))),
                                   ('for', 'x', ('list', V('cl')), [P(V('x'))]), P(('len', V('cl')))]
                        elif cons == 'par':
                            use = [('for2', 'x', ('gen', V('gg')), 'k', ('range', L(1), L(4)), [P(B('+', B('*', V('k'), L(1000)), V('x')))])]
                        elif cons == 'brk':
                            use = [('for', 'x', ('gen', V('gg')), [('gbreak', B('>', V('x'), L(6))), P(V('x'))]), P(L(-1))]
                        else:
                            use = [('decl', 'sm', 'I', L(0)), ('for', 'x', ('gen', V('gg')), [('assign', 'sm', B('+', V('sm'), V('x')))]), P(V('sm'))]
                        cases.append(('MI', pre + use))
    return cases


# ------------------------------------------------------------------------------------------ F5 closures
def f5(tier):
    cases = []
    # capture kinds x use kinds
    for cap in ('param', 'local', 'outer', 'counter'):
        for use in ('now', 'ret', 'list', 'twice', 'after-update'):
            for k in (1, 5):
                body = []
                if cap == 'param':
                    body.append(('fn', 'mk', [('a', 'I')], 'Fn', [('value', ('lam', 'x', B('+', V('x'), V('a'))))]))
                    mk = ('call', 'mk', [L(k)])
                elif cap == 'local':
                    body.append(('fn', 'mk', [('a', 'I')], 'Fn', [('decl', 'm', 'I', B('*', V('a'), L(2))), ('assign', 'm', B('+', V('m'), L(1))),
                                                               ('value', ('lam', 'x', B('+', V('x'), V('m'))))]))
                    mk = ('call', 'mk', [L(k)])
                elif cap == 'outer':
                    body.append(('fn', 'mk', [('a', 'I')], 'Fn', [('decl', 'f1', 'Fn', ('lam', 'y', B('*', V('y'), V('a')))),
                                                               ('value', ('lam', 'x', B('+', ('call', 'f1', [V('x')]), L(1))))]))
                    mk = ('call', 'mk', [L(k)])
                else:
                    body.append(('decl', 'cnt', 'I', L(0)))
                    body.append(('fn', 'bump', [('d', 'I')], 'I', [('assign', 'cnt', B('+', V('cnt'), V('d'))), ('value', V('cnt'))]))
                    mk = ('lam', 'x', B('+', V('x'), V('cnt')))
                body.append(('decl', 'f', 'Fn', mk))
                if use == 'now':
                    body.append(P(('call', 'f', [L(10)])))
                elif use == 'ret':
                    body.append(('decl', 'g', 'Fn', V('f')))
                    body.append(P(('call', 'g', [L(20)])))
                elif use == 'list':
                    if cap != 'counter':
                        body.append(('decl', 'f2', 'Fn', ('call', 'mk', [L(k + 1)])))
                        body.append(P(B('+', ('call', 'f', [L(1)]), ('call', 'f2', [L(1)]))))
                    else:
                        body.append(('expr', ('call', 'bump', [L(3)])))
                        body.append(P(('call', 'f', [L(1)])))
                elif use == 'twice':
                    body.append(P(('call', 'f', [('call', 'f', [L(2)])])))
                else:
                    if cap == 'counter':
                        body.append(P(('call', 'f', [L(0)])))
                        body.append(('expr', ('call', 'bump', [L(k)])))
                        body.append(('expr', ('call', 'bump', [L(k)])))
                        body.append(P(('call', 'f', [L(0)])))
                    else:
                        body.append(('assign', 'f', ('lam', 'x', B('-', ('call', 'f', [V('x')]), L(1)))) if False else P(('call', 'f', [L(0)])))
                cases.append(('MI', body))
    # accumulate closures over a loop: each closure captures a fresh local made by a function call
    for n in (0, 1, 3):
        body = [('fn', 'mk', [('a', 'I')], 'Fn', [('value', ('lam', 'x', B('+', B('*', V('x'), L(10)), V('a'))))]),
                ('decl', 'tot', 'I', L(0)),
                ('for', 'i', ('range', L(1), L(n)), [('decl', 'fi', 'Fn', ('call', 'mk', [V('i')])), ('assign', 'tot', B('+', V('tot'), ('call', 'fi', [V('i')])))]),
                P(V('tot'))]
        cases.append(('MI', body))
    return cases


def f5r(tier):
    """recursion through local functions (kept apart: with no inlining limit, -Q9, the compiler does not finish on some of these)"""
    cases = []
    # recursion through local functions, mutual recursion
    body = [('fn', 'fact', [('n', 'I')], 'I', [('exit', B('<', V('n'), L(2)), L(1)), ('value', B('*', V('n'), ('call', 'fact', [B('-', V('n'), L(1))])))]),
            P(('call', 'fact', [L(10)])), P(('call', 'fact', [L(0)]))]
    cases.append(('MI', body))
    cases.append(('BI', [body[0], P(('call', 'fact', [L(30)]))]))
    body = [('fn', 'ev', [('n', 'I')], 'Bool', [('exit', B('=', V('n'), L(0)), L(True)), ('value', ('call', 'od', [B('-', V('n'), L(1))]))]),
            ('fn', 'od', [('n', 'I')], 'Bool', [('exit', B('=', V('n'), L(0)), L(False)), ('value', ('call', 'ev', [B('-', V('n'), L(1))]))]),
            PB(('call', 'ev', [L(10)])), PB(('call', 'od', [L(7)])), PB(('call', 'ev', [L(3)]))]
    cases.append(('MI', body))
    body = [('fn', 'tri', [('k', 'I')], 'I', [('exit', B('<', V('k'), L(1)), L(0)), ('value', B('+', V('k'), ('call', 'tri', [B('-', V('k'), L(1))])))]),
            ('decl', 'oz', 'AI', ('anew', L(1), L(0))), P(('call', 'tri', [B('+', L(12), ('aget', V('oz'), L(0)))]))]
    cases.append(('MI', body))
    body = [('fn', 'fib', [('k', 'I')], 'I', [('exit', B('<', V('k'), L(2)), V('k')), ('value', B('+', ('call', 'fib', [B('-', V('k'), L(1))]), ('call', 'fib', [B('-', V('k'), L(2))])))]),
            P(('call', 'fib', [L(12)]))]
    cases.append(('MI', body))
    return cases


# ------------------------------------------------------------------------------------------ F6 data
def f6(tier):
    cases = []
    # lists: all sequences of <=3 operations on a list variable, then full print
    lops = ['cons', 'rest', 'rev', 'map', 'filter', 'app0']

    def lop(o, k):
        l = V('l')
        if o == 'cons':
            return [('assign', 'l', ('cons', L(10 + k), l))]
        if o == 'rest':
            return [('if', B('>', ('len', l), L(0)), [('assign', 'l', ('rest', l))], None)]
        if o == 'rev':
            return [('assign', 'l', ('reverse', l))]
        if o == 'map':
            return [('assign', 'l', ('collect', 'e', ('list', l), None, B('+', B('*', V('e'), L(2)), L(k))))]
        if o == 'filter':
            return [('assign', 'l', ('collect', 'e', ('list', l), B('=', B('rem', V('e'), L(2)), L(1)), V('e')))]
        return [('assign', 'l', ('list', []))] if False else [('assign', 'l', ('cons', ('len', l), l))]
    show_l = [('for', 'e', ('list', V('l')), [P(V('e'))]), P(B('+', L(9000), ('len', V('l'))))]
    maxn = 3
    for init in ([], [1, 2, 3]):
        for n in range(1, maxn + 1):
            for seq in itertools.product(lops, repeat=n):
                if n == 3 and tier == 'quick' and init:
                    continue
                body = [('decl', 'l', 'LI', ('list', [L(v) for v in init]))]
                for k, o in enumerate(seq):
                    body += lop(o, k)
                cases.append(('MI', body + show_l))
    # arrays: set / get / aliasing through a second variable
    aops = ['set0', 'seti', 'alias', 'sum', 'copyelt']

    def aop(o, k):
        a = V('a')
        if o == 'set0':
            return [('aset', a, L(0), L(100 + k))]
        if o == 'seti':
            return [('for', 'q%d' % k, ('range', L(0), L(2)), [('aset', a, V('q%d' % k), B('+', ('aget', a, V('q%d' % k)), V('q%d' % k)))])]
        if o == 'alias':
            return [('assign', 'b', a), ('aset', V('b'), L(1), L(50 + k))]
        if o == 'sum':
            return [('aset', a, L(2), B('+', ('aget', a, L(0)), ('aget', a, L(1))))]
        return [('aset', a, L(1), ('aget', a, L(2)))]
    show_a = [('for', 'q', ('range', L(0), L(2)), [P(('aget', V('a'), V('q')))]), P(('aget', V('b'), L(1)))]
    for n in range(1, 4):
        for seq in itertools.product(aops, repeat=n):
            body = [('decl', 'a', 'AI', ('anew', L(3), L(5))), ('decl', 'b', 'AI', ('anew', L(3), L(1)))]
            for k, o in enumerate(seq):
                body += aop(o, k)
            cases.append(('MI', body + show_a))
    # records: update, alias, pass to function that mutates, nested read
    rops = ['seta', 'setb', 'alias', 'call', 'swap', 'calias', 'alias3', 'dalias']

    def rop(o, k):
        r = V('r')
        if o == 'seta':
            return [('setfield', r, 'a', B('+', ('field', r, 'a'), L(k + 1)))]
        if o == 'setb':
            return [('setfield', r, 'b', B('*', ('field', r, 'a'), L(3)))]
        if o == 'alias':
            return [('assign', 'r2', r), ('setfield', V('r2'), 'b', L(70 + k))]
        if o == 'call':
            return [('expr', ('call', 'mut', [r]))]
        if o == 'calias':       # r2 names r only on some paths (decided at run time)
            return [('if', B('>', ('field', r, 'a'), L(1)), [('assign', 'r2', r)], None), ('setfield', V('r2'), 'b', L(60 + k))]
        if o == 'dalias':       # a fresh name for r, declared with r as its only value; update through the new name, then through r
            return [('decl', 'q%d' % k, 'Rec', r), ('setfield', V('q%d' % k), 'b', L(90 + k)), ('setfield', r, 'a', B('+', ('field', V('q%d' % k), 'a'), L(5)))]
        if o == 'alias3':       # r2 is made to name a third record
            return [('assign', 'r2', V('r3')), ('setfield', V('r2'), 'a', L(40 + k))]
        return [('decl', 't%d' % k, 'I', ('field', r, 'a')), ('setfield', r, 'a', ('field', r, 'b')), ('setfield', r, 'b', V('t%d' % k))]
    mut = ('fn', 'mut', [('z', 'Rec')], 'I', [('setfield', V('z'), 'a', B('+', ('field', V('z'), 'a'), L(100))), ('value', ('field', V('z'), 'a'))])
    show_r = [P(('field', V('r'), 'a')), P(('field', V('r'), 'b')), P(('field', V('r2'), 'a')), P(('field', V('r2'), 'b')), P(('field', V('r3'), 'a')), P(('field', V('r3'), 'b'))]
    for it in ('MI', 'BI'):
        for n in range(1, 4):
            for seq in itertools.product(rops, repeat=n):
                if it == 'BI' and n > 2:
                    continue
                body = [mut, ('decl', 'r', 'Rec', ('rec', L(1), L(2))), ('decl', 'r2', 'Rec', ('rec', L(8), L(9))), ('decl', 'r3', 'Rec', ('rec', L(20), L(21)))]
                for k, o in enumerate(seq):
                    body += rop(o, k)
                cases.append((it, body + show_r))
    # strings and booleans
    for s in ['', 'a', 'hello world', 'quote"inside', 'under_score', 'tab\there', '%d %s', 'x' * 300, 'a,b;c:d', '{}[]()', '#pile', '--c', '++d', "it's"]:
        cases.append(('MI', [('print', 'Str', L(s)), ('decl', 'st', 'Str', L(s)), ('print', 'Str', V('st'))]))
    for a in (True, False):
        for b in (True, False):
            cases.append(('MI', [('decl', 'p', 'Bool', L(a)), ('decl', 'q', 'Bool', L(b)), PB(B('and', V('p'), V('q'))), PB(B('or', V('p'), V('q'))),
                                 PB(('not', V('p'))), PB(('ife', V('p'), V('q'), ('not', V('q')))), PB(B('=', V('p'), V('q'))), PB(B('~=', V('p'), V('q')))]))
    return cases


# ------------------------------------------------------------------------------------------ F7 exceptions
def f7(tier):
    cases = []
    sites = ['direct', 'callee', 'loop', 'gen', 'closure', 'none']
    handlers = ['A', 'BA', 'B', 'none']
    for site in sites:
        for h in handlers:
            for fin in (False, True):
                for exn in ('VExA', 'VExB'):
                    if exn == 'VExB' and site not in ('direct', 'callee'):
                        continue
                    thrower = [('fn', 'thr', [('n', 'I')], 'I', [('if', B('>', V('n'), L(1)), [('throw', exn)], None), ('value', B('+', V('n'), L(1)))])]
                    if site == 'direct':
                        tb = [P(L(1)), ('throw', exn), P(L(2))]
                    elif site == 'callee':
                        tb = [P(('call', 'thr', [L(0)])), P(('call', 'thr', [L(5)])), P(L(2))]
                    elif site == 'loop':
                        tb = [('for', 'i', ('range', L(1), L(4)), [P(V('i')), ('if', B('=', V('i'), L(3)), [('throw', exn)], None)]), P(L(2))]
                    elif site == 'gen':
                        tb = [('decl', 'gx', 'Gen', ('gen', [('yield', L(1)), ('yield', ('call', 'thr', [L(7)])), ('yield', L(3))])),
                              ('for', 'x', ('gen', V('gx')), [P(V('x'))]), P(L(2))]
                    elif site == 'closure':
                        tb = [('decl', 'fc', 'Fn', ('lam', 'x', ('call', 'thr', [V('x')]))), P(('call', 'fc', [L(0)])), P(('call', 'fc', [L(9)])), P(L(2))]
                    else:
                        tb = [P(L(1)), P(L(2))]
                    hs = []
                    if h == 'A':
                        hs = [('VExnA', [P(L(31))])]
                    elif h == 'BA':
                        hs = [('VExnB', [P(L(32))]), ('VExnA', [P(L(31))])]
                    elif h == 'B':
                        hs = [('VExnB', [P(L(32))])]
                    tr = ('try', tb, hs, [P(L(40))] if fin else None)
                    if h == 'none' and not fin:
                        inner = tb
                    else:
                        inner = [tr]
                    # an outer handler catches whatever escapes, then execution continues
                    body = thrower + [('try', inner + [P(L(50))], [('VExnA', [P(L(61))]), ('VExnB', [P(L(62))])], None), P(L(70))]
                    cases.append(('MI', body))
    return cases


def f7_endings():
    """whole programs (one per file): how the program ends. (name, body, expected exit class, note)"""
    E = []
    E.append(('normal', [P(L(1))], 0))
    E.append(('uncaught', [P(L(1)), ('throw', 'VExA'), P(L(2))], 1))
    E.append(('uncaught-in-callee', [('fn', 'thr', [('n', 'I')], 'I', [('throw', 'VExB'), ('value', V('n'))]), P(L(1)), P(('call', 'thr', [L(1)])), P(L(2))], 1))
    E.append(('uncaught-after-finally', [('try', [P(L(1)), ('throw', 'VExA')], [('VExnB', [P(L(9))])], [P(L(40))]), P(L(2))], 1))
    return E


# ------------------------------------------------------------------------------------------ F10 optimiser bait
def f10(tier):
    C = []
    x, y, n, s = V('x'), V('y'), V('n'), V('s')
    # opaque run-time values: read back from an array cell (a recursive identity function made -Q9 inline for ever:
    # see DESIGN.md, C02 notes)
    O = lambda v: B('+', L(v), ('aget', V('oz'), L(0)))
    base = [('decl', 'oz', 'AI', ('anew', L(1), L(0))), ('decl', 'one', 'I', B('+', L(1), ('aget', V('oz'), L(0))))]
    # cse: expression, operand redefined in between, expression again
    for op in ('+', '*', '-'):
        C.append(base + [('decl', 'x', 'I', O(3)), ('decl', 'y', 'I', O(4)), P(B(op, x, y)), ('assign', 'x', B('+', x, L(1))), P(B(op, x, y)),
                         ('assign', 'y', L(0)), P(B(op, x, y))])
    # cse: array element read, store in between, read again; through an alias
    C.append(base + [('decl', 'a', 'AI', ('anew', L(3), O(5))), P(('aget', V('a'), L(1))), ('aset', V('a'), L(1), L(9)), P(('aget', V('a'), L(1))),
                     ('decl', 'b', 'AI', V('a')), ('aset', V('b'), L(1), L(11)), P(('aget', V('a'), L(1)))])
    # cse: record field read, update through alias or callee in between
    mut = ('fn', 'mut', [('z', 'Rec')], 'I', [('setfield', V('z'), 'a', B('+', ('field', V('z'), 'a'), L(100))), ('value', L(0))])
    C.append(base + [mut, ('decl', 'r', 'Rec', ('rec', O(1), O(2))), P(('field', V('r'), 'a')), ('expr', ('call', 'mut', [V('r')])), P(('field', V('r'), 'a')),
                     ('decl', 'r2', 'Rec', V('r')), ('setfield', V('r2'), 'a', L(7)), P(('field', V('r'), 'a'))])
    # cse: n+1 ; closure updates n ; n+1
    C.append(base + [('decl', 'n', 'I', O(10)), ('fn', 'inc', [], 'I', [('assign', 'n', B('+', n, L(5))), ('value', n)]),
                     P(B('+', n, L(1))), ('expr', ('call', 'inc', [])), P(B('+', n, L(1)))])
    # cse: available on one branch only, loop-carried
    for c in (0, 1):
        C.append(base + [('decl', 'x', 'I', O(6)), ('decl', 'y', 'I', O(c)), ('decl', 'z', 'I', L(0)),
                         ('if', B('=', y, L(1)), [('assign', 'z', B('*', x, L(3)))], [('assign', 'x', L(2))]), P(B('*', x, L(3))), P(V('z'))])
    C.append(base + [('decl', 'x', 'I', O(2)), ('decl', 's', 'I', L(0)), ('for', 'i', ('range', L(1), L(4)), [('assign', 's', B('+', s, B('*', x, x))), ('assign', 'x', B('+', x, L(1)))]), P(s)])
    # cprop: copy then source changes; swap; copy on one path; copies of parameters
    C.append(base + [('decl', 'x', 'I', O(1)), ('decl', 'y', 'I', x), ('assign', 'x', B('+', x, L(1))), P(y), P(x)])
    C.append(base + [('decl', 'x', 'I', O(1)), ('decl', 'y', 'I', O(2)), ('decl', 't', 'I', x), ('assign', 'x', y), ('assign', 'y', V('t')), P(x), P(y)])
    for c in (0, 1):
        C.append(base + [('decl', 'x', 'I', O(5)), ('decl', 'y', 'I', O(6)), ('decl', 'c', 'I', O(c)), ('if', B('=', V('c'), L(1)), [('assign', 'y', x)], None),
                         ('assign', 'x', L(0)), P(y)])
    C.append(base + [('fn', 'cp', [('p', 'I'), ('q', 'I')], 'I', [('decl', 'l1', 'I', V('p')), ('assign', 'p', V('q')), ('assign', 'q', V('l1')), ('value', B('-', V('p'), V('q')))]),
                     P(('call', 'cp', [O(10), O(3)]))])
    # dassign: value needed only by the handler / finally / after break / next iteration
    thr = ('fn', 'thr', [('v', 'I')], 'I', [('if', B('>', V('v'), L(1)), [('throw', 'VExA')], None), ('value', V('v'))])
    for v in (0, 5):
        C.append(base + [thr, ('decl', 'x', 'I', L(1)),
                         ('try', [('assign', 'x', L(2)), ('expr', ('call', 'thr', [O(v)])), ('assign', 'x', L(3))], [('VExnA', [P(B('+', x, L(100)))])], None), P(x)])
        C.append(base + [thr, ('decl', 'x', 'I', L(1)),
                         ('try', [('try', [('assign', 'x', L(2)), ('expr', ('call', 'thr', [O(v)])), ('assign', 'x', L(3))], [], [P(B('+', x, L(200)))])], [('VExnA', [P(L(9))])], None), P(x)])
    C.append(base + [('decl', 'x', 'I', L(0)), ('decl', 's', 'I', L(0)), ('for', 'i', ('range', L(1), L(5)), [('assign', 's', B('+', s, x)), ('assign', 'x', B('*', V('i'), L(2)))]), P(s)])
    C.append(base + [('decl', 'x', 'I', L(0)), ('for', 'i', ('range', L(1), O(5)), [('assign', 'x', B('*', V('i'), L(3))), ('gbreak', B('=', V('i'), L(3))), ('assign', 'x', L(-1))]), P(x)])
    # deadvar: unused variable whose initialiser has a side effect
    C.append(base + [('fn', 'loud', [('v', 'I')], 'I', [P(B('+', V('v'), L(800))), ('value', V('v'))]), ('decl', 'u', 'I', ('call', 'loud', [L(1)])),
                     ('decl', 'w', 'I', ('call', 'loud', [L(2)])), P(V('w'))])
    # deadvar: a never-read variable assigned several times, calls with an effect first and a pure value last (and the other
    # orders); a function with early exits whose last value is a call with an effect, called for that effect only
    loud = ('fn', 'loud', [('v', 'I')], 'I', [P(B('+', V('v'), L(800))), ('value', V('v'))])
    for seq in itertools.product(['call', 'pure', 'zero'], repeat=3):      # 'zero': the literal 0, which the pass treats as a mere initialisation
        if 'call' not in seq:
            continue
        val = lambda j, kd: ('call', 'loud', [L(j + 1)]) if kd == 'call' else (L(0) if kd == 'zero' else L(40 + j))
        # the variable lives in a function of its own whose body is just the assignments (first one is the declaration),
        # or in the case body followed by more statements
        dv = ('fn', 'dv', [], 'I', [('decl', 'u', 'I', val(0, seq[0]))] + [('assign', 'u', val(j, seq[j])) for j in (1, 2)] + [('value', L(0))])
        C.append(base + [loud, dv, ('expr', ('call', 'dv', [])), P(L(5))])
        C.append(base + [loud, ('decl', 'u', 'I', val(0, seq[0]))] + [('assign', 'u', val(j, seq[j])) for j in (1, 2)] + [P(L(5))])
    for early in (0, 3):
        work = ('fn', 'work', [('k', 'I')], 'I', [('exit', B('<=', V('k'), L(0)), L(0)), P(B('+', V('k'), L(600))), ('value', ('call', 'loud', [V('k')]))])
        C.append(base + [loud, work, ('expr', ('call', 'work', [O(early)])), ('expr', ('call', 'work', [L(early)])), P(L(6))])
        work2 = ('fn', 'work', [('k', 'I')], 'I', [('exit', B('>', V('k'), L(0)), ('call', 'loud', [V('k')])), ('value', L(0))])
        C.append(base + [loud, work2, ('expr', ('call', 'work', [O(early)])), P(L(7))])
    # peep: identity / absorbing element with an operand that prints
    loud = ('fn', 'loud', [('v', 'I')], 'I', [P(B('+', V('v'), L(800))), ('value', V('v'))])
    LD = lambda v: ('call', 'loud', [L(v)])
    for e in [B('*', LD(3), L(0)), B('*', L(0), LD(3)), B('+', LD(3), L(0)), B('-', LD(3), LD(3)), B('*', LD(4), L(1)), B('quo', LD(8), L(1)),
              B('-', L(0), LD(2)), B('*', LD(5), L(2)), B('*', LD(5), L(8)), B('+', L(-3), LD(1)), B('-', LD(1), L(-3)), B('rem', LD(9), L(1))]:
        C.append(base + [loud, P(e)])
    for e in [B('and', L(False), B('>', LD(1), L(0))), B('or', L(True), B('>', LD(1), L(0))), B('=', LD(2), LD(2)), B('<', LD(2), LD(2)), B('<=', LD(3), LD(3)),
              B('~=', LD(4), LD(4)), B('=', B('-', LD(2), L(2)), L(0)), B('<', L(0), LD(3)), B('<=', LD(3), L(0))]:
        C.append(base + [loud, PB(e)])
    # flow: boolean computed into a variable then tested; nested if-expressions; constant tests
    for a in (0, 1):
        for b in (0, 1):
            C.append(base + [('decl', 'p', 'Bool', B('=', O(a), L(1))), ('decl', 'q', 'Bool', B('=', O(b), L(1))), ('decl', 'r', 'I', L(0)),
                             ('if', ('ife', V('p'), V('q'), ('not', V('q'))), [('assign', 'r', L(1))], [('assign', 'r', L(2))]),
                             ('if', B('and', V('p'), ('not', V('q'))), [('assign', 'r', B('+', V('r'), L(10)))], None),
                             ('if', L(True), [('if', L(False), [('assign', 'r', L(99))], [('if', L(True), [('assign', 'r', B('+', V('r'), L(100)))], None)])], None), P(V('r'))])
    # emerge: record escaping via list / closure vs not; env of a local function that is returned
    C.append(base + [('decl', 'r', 'Rec', ('rec', O(1), O(2))), ('decl', 'f', 'Fn', ('lam', 'q', B('+', V('q'), ('field', V('r'), 'a')))),
                     ('setfield', V('r'), 'a', L(50)), P(('call', 'f', [L(1)]))])
    C.append(base + [('fn', 'mk', [('a', 'I')], 'Fn', [('decl', 'loc', 'I', B('*', V('a'), L(2))), ('fn', 'inner', [('q', 'I')], 'I', [('assign', 'loc', B('+', V('loc'), L(1))), ('value', B('+', V('q'), V('loc')))]),
                                                   ('value', ('lam', 'w', ('call', 'inner', [V('w')])))]),
                     ('decl', 'f', 'Fn', ('call', 'mk', [O(3)])), P(('call', 'f', [L(0)])), P(('call', 'f', [L(0)])),
                     ('decl', 'g', 'Fn', ('call', 'mk', [O(4)])), P(('call', 'g', [L(0)])), P(('call', 'f', [L(0)]))])
    # emerge: a record or array under two names, updated through either, in every order of {declare alias, update via alias,
    # update via original, read both}; alias taken conditionally; alias created by passing the structure to a function that
    # updates it; the same for arrays
    rr = lambda: [('decl', 'r', 'Rec', ('rec', O(1), O(2)))]
    show2 = lambda a, b2: [P(('field', V(a), 'a')), P(('field', V(a), 'b')), P(('field', V(b2), 'a')), P(('field', V(b2), 'b'))]
    steps = {'ua': [('setfield', V('r2'), 'b', L(7))], 'uo': [('setfield', V('r'), 'a', L(9))], 'ub': [('setfield', V('r2'), 'a', B('+', ('field', V('r'), 'a'), L(100)))]}
    for order in itertools.permutations(['ua', 'uo', 'ub'], 2):
        C.append(base + rr() + [('decl', 'r2', 'Rec', V('r'))] + steps[order[0]] + steps[order[1]] + show2('r', 'r2'))
    for k in ('ua', 'uo', 'ub'):
        C.append(base + rr() + [('decl', 'r2', 'Rec', V('r'))] + steps[k] + show2('r', 'r2'))
        C.append(base + rr() + [('decl', 's', 'Rec', ('rec', L(30), L(40))), ('decl', 'r2', 'Rec', V('s')), ('if', B('>', O(1), L(0)), [('assign', 'r2', V('r'))], None)] + steps[k] + show2('r', 'r2') + show2('s', 's'))
    mutf = ('fn', 'mutz', [('z', 'Rec')], 'I', [('setfield', V('z'), 'a', B('+', ('field', V('z'), 'a'), L(100))), ('value', ('field', V('z'), 'b'))])
    C.append(base + [mutf] + rr() + [('expr', ('call', 'mutz', [V('r')])), P(('field', V('r'), 'a')), ('expr', ('call', 'mutz', [V('r')])), P(('field', V('r'), 'a'))])
    C.append(base + [mutf] + rr() + [('decl', 'r2', 'Rec', V('r')), ('expr', ('call', 'mutz', [V('r2')]))] + show2('r', 'r2'))
    aa = lambda: [('decl', 'a', 'AI', ('anew', L(3), O(5)))]
    C.append(base + aa() + [('decl', 'b', 'AI', V('a')), ('aset', V('b'), L(1), L(50)), P(('aget', V('a'), L(1))), ('aset', V('a'), L(0), L(60)), P(('aget', V('b'), L(0)))])
    C.append(base + aa() + [('decl', 'b', 'AI', V('a')), ('aset', V('a'), L(2), L(70)), P(('aget', V('b'), L(2))), P(('aget', V('a'), L(2)))])
    # env / nested closures three levels deep
    C.append(base + [('decl', 'a', 'I', O(1)), ('fn', 'l1', [('p', 'I')], 'I', [('decl', 'b', 'I', B('+', V('a'), V('p'))),
                     ('fn', 'l2', [('q', 'I')], 'I', [('decl', 'c', 'I', B('+', V('b'), V('q'))), ('fn', 'l3', [('w', 'I')], 'I', [('assign', 'a', B('+', V('a'), L(1))), ('value', B('+', B('+', V('a'), V('b')), B('+', V('c'), V('w'))))]),
                                                       ('value', ('call', 'l3', [L(1000)]))]), ('value', ('call', 'l2', [L(100)]))]),
                     P(('call', 'l1', [L(10)])), P(('call', 'l1', [L(10)])), P(V('a'))])
    # inline: recursive, mutually recursive, multi-exit functions, function with free variable
    # (recursion on a non-constant argument is left out: -Q9 sets no inlining limit and the compiler does not finish on it)
    C.append(base + [('fn', 'me', [('k', 'I')], 'I', [('exit', B('<', V('k'), L(0)), L(-1)), ('exit', B('=', V('k'), L(0)), L(0)), ('if', B('>', V('k'), L(100)), [('return', L(100))], None), ('value', B('+', V('k'), L(1)))]),
                     P(('call', 'me', [O(-5)])), P(('call', 'me', [O(0)])), P(('call', 'me', [O(500)])), P(('call', 'me', [O(7)]))])
    C.append(base + [('decl', 'fv', 'I', O(3)), ('fn', 'usefv', [('k', 'I')], 'I', [('assign', 'fv', B('+', V('fv'), V('k'))), ('value', B('*', V('fv'), L(2)))]),
                     P(('call', 'usefv', [L(1)])), P(('call', 'usefv', [L(1)])), P(V('fv'))])
    # inline: by-value parameters. The argument is a variable the callee itself changes (lexical, captured by the
    # callee) — substituting the argument expression for the parameter would alias them.  All callee bodies of <= 3
    # atoms over {change the variable, read the parameter, print the parameter}.
    atoms = {'bump': ('assign', 'n', B('+', n, L(7))), 'read': ('assign', 'r', B('+', V('r'), V('a'))), 'show': P(V('a'))}
    for k in (1, 2, 3):
        for seq in itertools.product(sorted(atoms), repeat=k):
            if 'bump' not in seq or seq == ('bump',) * k:
                continue
            body = [('decl', 'r', 'I', L(0))] + [atoms[x] for x in seq] + [('value', B('+', V('r'), V('a')))]
            C.append([('decl', 'n', 'I', L(10)), ('fn', 'g', [('a', 'I')], 'I', body), P(('call', 'g', [n])), P(n)])
    C.append([('decl', 'n', 'I', L(10)), ('fn', 'h', [('a', 'I')], 'I', [('decl', 't', 'I', L(0)), ('for', 'i', ('range', L(1), L(3)), [('assign', 'n', B('+', n, L(1))), ('assign', 't', B('+', V('t'), V('a')))]), ('value', V('t'))]),
              P(('call', 'h', [n])), P(n)])
    # generators are always inlined: nested consumption with side effects
    C.append(base + [('decl', 's', 'I', L(0)), ('for', 'i', ('range', L(1), O(3)), [('for', 'j', ('range', V('i'), L(3)), [('assign', 's', B('+', B('*', s, L(2)), V('j')))])]), P(s)])
    # drop the opaque-value helper where a case does not use it (a dead local function next to a live one is a
    # construct of its own: see f10_dead_lexicals)
    out = []
    for c in C:
        rest = c[2:]
        if c[:2] == base and "'oz'" not in repr(rest) and "'one'" not in repr(rest):
            c = rest
        out.append(('MI', c))
    out += f10_dead_lexicals()
    return out


def f10_dead_lexicals():
    """a function whose own lexical variables are all dead, containing a live local function"""
    opq = ('fn', 'opq', [('v', 'I'), ('d', 'I')], 'I', [('exit', B('=', V('d'), L(0)), V('v')), ('value', B('-', V('d'), L(1)))])
    loud = ('fn', 'loud', [('v', 'I')], 'I', [('value', V('v'))])
    return [('MI', [opq, ('decl', 'one', 'I', L(1)), loud, PB(B('<', ('call', 'loud', [L(2)]), ('call', 'loud', [L(2)])))])]


FAMILIES = {'F1': f1, 'F3': f3, 'F4': f4, 'F5': f5, 'F5R': f5r, 'F6': f6, 'F7': f7, 'F10': f10}


def all_cases(tier, which=None):
    """[(family, case)] restricted to the defined subset"""
    out = []
    for name, fn in FAMILIES.items():
        if which and name not in which:
            continue
        for c in fn(tier):
            if in_subset(c):
                out.append((name, c))
    return out


# ------------------------------------------------------------------------------------------ template families
def raw(text, lines):
    return ('RAW', text, ['K@K@:%s' % l for l in lines])


def f2(tier):
    """literal forms the scanner knows (integers of both widths, radix, strings with escapes)"""
    C = []
    ints = [('0', 0), ('007', 7), ('2r1010', 10), ('8r777', 511), ('16rFF', 255), ('16r7FFFFFFF', 2147483647), ('36rZZ', 1295),
            ('10r123', 123), ('9223372036854775807', (1 << 63) - 1), ('2147483648', 1 << 31), ('4294967296', 1 << 32), ('16r100000000', 1 << 32)]
    body = ''.join('\tpIMI("K@K@:", %s);\n' % t for t, _ in ints)
    C.append(raw('c@K@(): () == {\n\timport from MachineInteger;\n%s}\n' % body, [str(v) for _, v in ints]))
    big = [('18446744073709551616', 1 << 64), ('16rFFFFFFFFFFFFFFFFFFFF', (1 << 80) - 1), ('2r' + '1' * 70, (1 << 70) - 1),
           ('100000000000000000000000000000000000000', 10 ** 38), ('36rALDORCOMPILER', int('ALDORCOMPILER', 36)), ('0', 0), ('9' * 60, int('9' * 60))]
    body = ''.join('\tpIBI("K@K@:", %s);\n' % t for t, _ in big)
    C.append(raw('c@K@(): () == {\n\timport from Integer;\n%s}\n' % body, [str(v) for _, v in big]))
    strs = [('abc', 'abc'), ('a_"b', 'a"b'), ('a__b', 'a_b'), ('', ''), ('x y  z', 'x y  z'), ('-- not a comment', '-- not a comment'), ('#include', '#include'),
            ('{;}', '{;}'), ('a_\nb', 'ab')]
    body = ''.join('\tpS("K@K@:", "%s");\n' % t for t, _ in strs)
    C.append(raw('c@K@(): () == {\n%s}\n' % body, [v for _, v in strs]))
    return C


def f8(tier):
    """overloading by argument and by result type, macros"""
    C = []
    defs = '''ov@K@(x: MachineInteger): String == "mi";
ov@K@(x: Integer): String == "bi";
ov@K@(x: String): String == "st";
ov@K@(x: Boolean): String == "bo";
ov@K@(x: MachineInteger, y: MachineInteger): String == "mimi";
ov@K@(x: String, y: MachineInteger): String == "stmi";
rr@K@(): MachineInteger == { import from MachineInteger; 41 };
rr@K@(): String == "rs";
rr@K@(): Boolean == true;
tk@K@(x: MachineInteger): MachineInteger == { import from MachineInteger; x + 1 };
tk@K@(x: String): MachineInteger == { import from MachineInteger; 100 };
'''
    uses = [('ov@K@(3)', 'S', 'mi'), ('ov@K@("x")', 'S', 'st'), ('ov@K@(true)', 'S', 'bo'), ('ov@K@(3, 4)', 'S', 'mimi'), ('ov@K@("a", 4)', 'S', 'stmi'),
            ('rr@K@()@String', 'S', 'rs'), ('rr@K@()@MachineInteger', 'IMI', '41'), ('rr@K@()@Boolean', 'L', 'T'),
            ('tk@K@(rr@K@())', 'IMI', None), ('ov@K@(rr@K@()@MachineInteger)', 'S', 'mi'), ('ov@K@(rr@K@()@String)', 'S', 'st'),
            ('tk@K@(tk@K@("q"))', 'IMI', '101'), ('ov@K@(tk@K@(5), tk@K@("z"))', 'S', 'mimi')]
    uses = [u for u in uses if u[2] is not None]
    # every non-empty prefix-closed selection would be 2^n; the family takes every single use and every adjacent pair
    sel = [[u] for u in uses] + [[uses[i], uses[j]] for i in range(len(uses)) for j in range(len(uses)) if i != j and (tier == 'thorough' or j == i + 1)]
    for us in sel:
        body = ''.join('\tp%s("K@K@:", %s);\n' % (t, e) for e, t, _ in us)
        C.append(raw(defs + 'c@K@(): () == {\n\timport from MachineInteger;\n%s}\n' % body, [v for _, _, v in us]))
    # declared-type context
    C.append(raw(defs + 'c@K@(): () == {\n\timport from MachineInteger;\n\ta: String := rr@K@();\n\tb: MachineInteger := rr@K@();\n\tpS("K@K@:", a);\n\tpIMI("K@K@:", b + 1);\n}\n', ['rs', '42']))
    # macros
    mac = '''mz@K@ ==> 7;
mc@K@(a) ==> (a + a);
md@K@(a, b) ==> (mc@K@(a) * b);
'''
    muses = [('mz@K@', 7), ('mc@K@(3)', 6), ('md@K@(2, 5)', 20), ('mc@K@(mz@K@)', 14), ('md@K@(mz@K@, mc@K@(1))', 28), ('mc@K@(mc@K@(1))', 4)]
    for n in (1, 2):
        for us in itertools.permutations(muses, n) if tier == 'thorough' else [m for m in itertools.combinations(muses, n)]:
            body = ''.join('\tpIMI("K@K@:", %s);\n' % e for e, _ in us)
            C.append(raw(mac + 'c@K@(): () == {\n\timport from MachineInteger;\n%s}\n' % body, [str(v) for _, v in us]))
    # default parameter values and keyword arguments: every way of supplying the three parameters of one function
    kdef = 'sc@K@(x: MachineInteger, factor: MachineInteger == 10, offs: MachineInteger == 0): MachineInteger == { import from MachineInteger; x * factor + offs };\n'
    kuses = [('sc@K@(2)', 20), ('sc@K@(2, 3)', 6), ('sc@K@(2, 3, 4)', 10), ('sc@K@(2, offs == 1)', 21), ('sc@K@(2, factor == 3)', 6), ('sc@K@(2, 3, offs == 4)', 10),
             ('sc@K@(2, offs == 1, factor == 5)', 11), ('sc@K@(2, factor == 5, offs == 1)', 11), ('sc@K@(x == 2)', 20), ('sc@K@(factor == 3, x == 2)', 6),
             ('sc@K@(offs == 7, factor == 3, x == 2)', 13), ('sc@K@(sc@K@(1), offs == sc@K@(1, 1))', 101)]
    for i in range(0, len(kuses), 4):
        us = kuses[i:i + 4]
        body = ''.join('\tpIMI("K@K@:", %s);\n' % e for e, _ in us)
        C.append(raw(kdef + 'c@K@(): () == {\n\timport from MachineInteger;\n%s}\n' % body, [str(v) for _, v in us]))
    # macro parameter shadowing a local name, macro using a local
    C.append(raw('mq@K@(x) ==> (x * y);\nc@K@(): () == {\n\timport from MachineInteger;\n\ty: MachineInteger := 3;\n\tx: MachineInteger := 100;\n\tpIMI("K@K@:", mq@K@(5));\n\tpIMI("K@K@:", mq@K@(y));\n}\n', ['15', '9']))
    return C


def f9(tier):
    """categories with defaults (overridden or not), parametrised domains, Rep/per/rep, conditional exports"""
    C = []
    for ndef in (0, 1, 2):                 # how many of the two default operations the domain overrides
        for rept in ('MachineInteger', 'Record(v: MachineInteger)'):
            if rept.startswith('Record'):
                mk, val, imp = 'per [n]', '(rep x).v', 'import from Rep;'
            else:
                mk, val, imp = 'per n', 'rep x', 'import from Rep;'
            over = ''
            if ndef >= 1:
                over += '\ttwice(x: %): MachineInteger == 3 * val x;\n'
            if ndef >= 2:
                over += '\tshow(x: %): MachineInteger == 1000 + val x;\n'
            text = '''define VCat@K@: Category == with {
	mk: MachineInteger -> %%;
	val: %% -> MachineInteger;
	twice: %% -> MachineInteger;
	show: %% -> MachineInteger;
	default {
		twice(x: %%): MachineInteger == { import from MachineInteger; 2 * val x };
		show(x: %%): MachineInteger == { import from MachineInteger; twice x + 1 };
	}
}
VDom@K@: VCat@K@ == add {
	Rep == %s;
	%s
	import from MachineInteger;
	mk(n: MachineInteger): %% == %s;
	val(x: %%): MachineInteger == %s;
%s}
VPar@K@(T: VCat@K@): with { run: MachineInteger -> MachineInteger; both: MachineInteger -> MachineInteger } == add {
	import from T, MachineInteger;
	run(n: MachineInteger): MachineInteger == twice(mk n) + val(mk n);
	both(n: MachineInteger): MachineInteger == show(mk n);
}
c@K@(): () == {
	import from MachineInteger;
	import from VDom@K@;
	pIMI("K@K@:", twice(mk 5));
	pIMI("K@K@:", show(mk 5));
	import from VPar@K@(VDom@K@);
	pIMI("K@K@:", run 7);
	pIMI("K@K@:", both 7);
}
''' % (rept, imp, mk, val, over)
            tw = (lambda v: 3 * v) if ndef >= 1 else (lambda v: 2 * v)
            sh = (lambda v: 1000 + v) if ndef >= 2 else (lambda v: tw(v) + 1)
            C.append(raw(text, [str(tw(5)), str(sh(5)), str(tw(7) + 7), str(sh(7))]))
    # conditional export on `T has C`, instantiated with a type that has it and one that has not
    text = '''define VHas@K@: Category == with { bonus: () -> MachineInteger };
VYes@K@: VHas@K@ == add { bonus(): MachineInteger == { import from MachineInteger; 70 } };
VNo@K@: with { plain: () -> MachineInteger } == add { plain(): MachineInteger == { import from MachineInteger; 1 } };
VCond@K@(T: with): with { base: () -> MachineInteger; if T has VHas@K@ then extra: () -> MachineInteger } == add {
	import from MachineInteger;
	base(): MachineInteger == if T has VHas@K@ then 10 else 20;
	if T has VHas@K@ then { extra(): MachineInteger == bonus()$T + 1 }
}
c@K@(): () == {
	import from MachineInteger;
	pIMI("K@K@:", base()$VCond@K@(VYes@K@));
	pIMI("K@K@:", extra()$VCond@K@(VYes@K@));
	pIMI("K@K@:", base()$VCond@K@(VNo@K@));
}
'''
    C.append(raw(text, ['10', '71', '20']))
    # the same parametrised domain instantiated twice keeps separate state; domain-level constant initialised once
    text = '''VCnt@K@(T: with): with { next: () -> MachineInteger } == add {
	import from MachineInteger;
	n: MachineInteger := 0;
	next(): MachineInteger == { free n; n := n + 1; n }
}
c@K@(): () == {
	import from MachineInteger;
	pIMI("K@K@:", next()$VCnt@K@(String));
	pIMI("K@K@:", next()$VCnt@K@(String));
	pIMI("K@K@:", next()$VCnt@K@(Boolean));
	pIMI("K@K@:", next()$VCnt@K@(String));
}
'''
    C.append(raw(text, ['1', '2', '1', '3']))
    return C


FAMILIES.update({'F2': f2, 'F8': f8, 'F9': f9})


def f7m(tier):
    """exceptions thrown out of multi-valued calls inside a try (with and without a value), callee chosen at run time"""
    C = []
    for sel in ('direct', 'value'):
        for tryk in ('value', 'void', 'nested'):
            for pat in ((2, 'A'), (3, 'B'), (9, 'A')):
                lim, ex = pat
                other = 'B' if ex == 'A' else 'A'
                defs = '''mvp@K@(n: MachineInteger): (MachineInteger, MachineInteger) == { import from MachineInteger; (n, n + 1) }
mvt@K@(n: MachineInteger): (MachineInteger, MachineInteger) == { import from MachineInteger; n > %d => throw VEx%s; n = 1 => throw VEx%s; (n * 10, n) }
''' % (lim, ex, other)
                call = 'mvt@K@(i)' if sel == 'direct' else 'hf(i)'
                pick = '' if sel == 'direct' else '\t\thf: MachineInteger -> (MachineInteger, MachineInteger) := if i rem 2 = 0 then mvp@K@ else mvt@K@;\n'
                if tryk == 'value':
                    body = '\t\tr: MachineInteger := try { (a, b) := %s; a + b } catch E in { E has VExnA => -1; E has VExnB => -2; throw E };\n\t\tpIMI("K@K@:", r);\n' % call
                elif tryk == 'void':
                    body = '\t\tr: MachineInteger := 0;\n\t\ttry { (a, b) := %s; r := a + b } catch E in { E has VExnA => { r := -1 }; E has VExnB => { r := -2 }; throw E };\n\t\tpIMI("K@K@:", r);\n' % call
                else:
                    body = ('\t\tr: MachineInteger := try { try { (a, b) := %s; a + b } catch E in { E has VExnB => -2; throw E } finally pIMI("K@K@:", 77) } '
                            'catch F in { F has VExnA => -1; throw F };\n\t\tpIMI("K@K@:", r);\n' % call)
                text = defs + 'c@K@(): () == {\n\timport from MachineInteger;\n\tfor i in 1..5 repeat {\n' + pick + body + '\t}\n}\n'
                exp = []
                for i in range(1, 6):
                    def mvt(n):
                        if n > lim:
                            return ex
                        if n == 1:
                            return other
                        return n * 10 + n
                    def mvp(n):
                        return n + n + 1
                    v = mvt(i) if (sel == 'direct' or i % 2 == 1) else mvp(i)
                    if tryk == 'nested':
                        exp.append('77')
                    exp.append(str({'A': -1, 'B': -2}.get(v, v)))
                C.append(raw(text, exp))
    return C


FAMILIES.update({'F7M': f7m})


def f6m(tier):
    """multiple values, tuples and unions"""
    C = []
    # functions returning two / three values; destructuring; swap by multiple assignment; values passed on
    C.append(raw('''mv2@K@(a: MachineInteger, b: MachineInteger): (MachineInteger, MachineInteger) == { import from MachineInteger; (a + b, a * b) }
mv3@K@(a: MachineInteger): (MachineInteger, MachineInteger, MachineInteger) == { import from MachineInteger; (a, a + 1, a * 2) }
c@K@(): () == {
	import from MachineInteger;
	(s, p) := mv2@K@(3, 4);
	pIMI("K@K@:", s); pIMI("K@K@:", p);
	(x, y, z) := mv3@K@(10);
	pIMI("K@K@:", x + y + z);
	(s, p) := (p, s);
	pIMI("K@K@:", s); pIMI("K@K@:", p);
	(q, r) := divide(47, 5);
	pIMI("K@K@:", q); pIMI("K@K@:", r);
	for i in 1..3 repeat { (s, p) := mv2@K@(s, i); }
	pIMI("K@K@:", s); pIMI("K@K@:", p);
}
''', ['7', '12', '41', '12', '7', '9', '2', '18', '45']))
    C.append(raw('''c@K@(): () == {
	import from MachineInteger;
	a: MachineInteger := 1; b: MachineInteger := 2; c: MachineInteger := 3;
	(a, b, c) := (c, a, b);
	pIMI("K@K@:", a * 100 + b * 10 + c);
	(a, b) := (b, a + b);
	pIMI("K@K@:", a * 100 + b * 10 + c);
}
''', ['312', '142']))
    # unions: construction, case test, selection, reassignment to the other branch, in a list
    for first in ('i', 's'):
        init = '[7]' if first == 'i' else '["seven"]'
        other = '["str"]' if first == 'i' else '[9]'
        exp = []
        show = lambda br, v: [('int' + str(v)) if br == 'i' else ('str' + v)]
        text = '''sh@K@(u: Union(i: MachineInteger, s: String)): () == {
	import from MachineInteger;
	if u case i then pS("K@K@:", "int") else pS("K@K@:", "str");
	if u case s then pS("K@K@:", u.s) else pIMI("K@K@:", u.i);
}
c@K@(): () == {
	import from MachineInteger;
	U ==> Union(i: MachineInteger, s: String);
	u: U := %s;
	sh@K@(u);
	u := %s;
	sh@K@(u);
	l: List U := [[1], ["two"], [3]];
	for e in l repeat sh@K@(e);
}
''' % (init, other)
        a = ['int', '7'] if first == 'i' else ['str', 'seven']
        b = ['str', 'str'] if first == 'i' else ['int', '9']
        C.append(raw(text, a + b + ['int', '1', 'str', 'two', 'int', '3']))
    # evaluation order inside a tuple: components are evaluated left to right, so a bare variable, an expression on it, a
    # call that updates it and an assignment to it give different values in different orders.  All tuples of length 2 and 3
    # over those four kinds with an updater and a reader in them, as the right-hand side of a multiple assignment and as
    # the value returned by a function.
    comp = {'v': 'n', 'e': '(n + 100)', 'c': 'tk@K@()', 'a': '(n := n + 5)'}

    def sim(t):
        n, out = 3, []
        for k in t:
            if k == 'v':
                out.append(n)
            elif k == 'e':
                out.append(n + 100)
            elif k == 'c':
                n += 1
                out.append(n)
            else:
                n += 5
                out.append(n)
        return out, n
    for ln in (2, 3):
        for t in itertools.product('veca', repeat=ln):
            if not (set(t) & set('ca')) or not (set(t) & set('ve')):
                continue
            if tier == 'quick' and ln == 3 and t[0] not in 've':
                continue
            vals, nfin = sim(t)
            names = ', '.join('x%d' % i for i in range(ln))
            tup = ', '.join(comp[k] for k in t)
            typ = ', '.join(['MachineInteger'] * ln)
            prints = ' '.join('pIMI("K@K@:", x%d);' % i for i in range(ln))
            head = 'n@K@: MachineInteger := 3;\ntk@K@(): MachineInteger == { import from MachineInteger; free n@K@; n@K@ := n@K@ + 1; n@K@ }\n'
            body1 = head + 'c@K@(): () == {\n\timport from MachineInteger;\n\tfree n@K@;\n\tn@K@ := 3;\n\t(%s) := (%s);\n\t%s pIMI("K@K@:", n@K@);\n}\n' % (names, tup.replace('n', 'n@K@').replace('n@K@ew', 'new'), prints)
            C.append(raw(body1, [str(v) for v in vals] + [str(nfin)]))
            body2 = head + 'rt@K@(): (%s) == { import from MachineInteger; free n@K@; (%s) }\nc@K@(): () == {\n\timport from MachineInteger;\n\tfree n@K@;\n\tn@K@ := 3;\n\t(%s) := rt@K@();\n\t%s pIMI("K@K@:", n@K@);\n}\n' % (
                typ, tup.replace('n', 'n@K@'), names, prints)
            C.append(raw(body2, [str(v) for v in vals] + [str(nfin)]))
    # default arguments? keyword-free: partial application through closures returning several values
    C.append(raw('''c@K@(): () == {
	import from MachineInteger;
	f: MachineInteger -> (MachineInteger, MachineInteger) := (n: MachineInteger): (MachineInteger, MachineInteger) +-> (n quo 3, n rem 3);
	for k in 7..9 repeat { (q, r) := f k; pIMI("K@K@:", q * 10 + r); }
}
''', ['21', '22', '30']))
    return C


FAMILIES.update({'F6M': f6m})
FAMILIES.update({'F3P': f3p})


def f7b(tier):
    """exceptions across functions of very different size: the thrower and the catcher are each either small or have more than
    255 branch targets (the interpreter stores label numbers in one byte up to 255 and in four bytes above)"""
    def ifs(var, n, acc):
        return [('if', B('>', V(var), L(k * 3)), [('assign', acc, B('+', V(acc), L(k % 7 + 1)))], None) for k in range(n)]
    C = []
    for nthrow, ncatch in ((2, 2), (301, 2), (2, 301), (301, 301)):
        thrower = ('fn', 'bg', [('n', 'I')], 'I', [('decl', 's', 'I', L(0))] + ifs('n', nthrow, 's') +
                   [('if', B('>', V('n'), L(1000)), [('throw', 'VExA')], None), ('value', V('s'))])
        catcher = ('fn', 'rn', [('n', 'I')], 'I', [('decl', 'r', 'I', L(0)), ('try', [('assign', 'r', ('call', 'bg', [V('n')]))], [('VExnA', [('assign', 'r', L(-11))])], None)] +
                   ifs('n', ncatch, 'r') + [('value', V('r'))])
        C.append(('MI', [thrower, catcher, P(('call', 'rn', [L(7)])), P(('call', 'rn', [L(2000)])), P(('call', 'rn', [L(9)]))]))
    return C


FAMILIES.update({'F7B': f7b})
