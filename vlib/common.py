"""Shared machinery: process runner, parallel map, evidence writer, known findings, replays."""
import os, sys, json, time, subprocess, shutil, signal, tempfile, hashlib, fnmatch, threading, re
import concurrent.futures as cf

VERIF = os.path.dirname(os.path.dirname(os.path.abspath(__file__)))
OUT = os.environ.get('VERIF_OUT', VERIF)       # evidence and replays go here (bin/seedtest redirects them while it tests a seeded change)
NCPU = int(os.environ.get('VERIF_JOBS', '16'))
SEED = int(os.environ.get('VERIF_SEED', '0') or 0)

CLEAN_ENV = {'PATH': '/usr/local/sbin:/usr/local/bin:/usr/sbin:/usr/bin:/sbin:/bin', 'LANG': 'C', 'LC_ALL': 'C',
             'HOME': '/nonexistent', 'TZ': 'UTC'}


import ctypes
_libc = None


def _pdeathsig():
    # children die with the check (they live in their own session so that a timeout can kill the whole group)
    global _libc
    try:
        if _libc is None:
            _libc = ctypes.CDLL('libc.so.6', use_errno=True)
        _libc.prctl(1, signal.SIGKILL)
    except Exception:
        pass


class Res:
    __slots__ = ('rc', 'out', 'err', 'timeout', 'sig')

    def __init__(self, rc, out, err, timeout):
        self.rc = rc
        self.out = out
        self.err = err
        self.timeout = timeout
        self.sig = -rc if (rc is not None and rc < 0) else 0

    def text(self):
        return self.out.decode('latin-1') if isinstance(self.out, bytes) else self.out


def run(cmd, cwd=None, env=None, timeout=60, stdin=None, merge=False, norand=True, mem_mb=None):
    """Run a process in its own group with a scrubbed environment; returns Res (bytes)."""
    e = dict(CLEAN_ENV)
    if env:
        e.update(env)
    if norand:
        cmd = ['setarch', 'x86_64', '-R'] + list(cmd)
    if mem_mb:
        cmd = ['prlimit', '--as=%d' % (mem_mb << 20)] + list(cmd)
    try:
        p = subprocess.Popen(cmd, cwd=cwd, env=e, stdin=subprocess.PIPE if stdin is not None else subprocess.DEVNULL,
                             stdout=subprocess.PIPE, stderr=subprocess.STDOUT if merge else subprocess.PIPE,
                             start_new_session=True, preexec_fn=_pdeathsig)
    except OSError as ex:
        return Res(127, b'', str(ex).encode(), False)
    try:
        out, err = p.communicate(stdin, timeout=timeout)
        return Res(p.returncode, out, err or b'', False)
    except subprocess.TimeoutExpired:
        try:
            os.killpg(p.pid, signal.SIGKILL)
        except OSError:
            pass
        try:
            out, err = p.communicate(timeout=5)
        except Exception:
            out, err = b'', b''
        return Res(None, out or b'', err or b'', True)


def pmap(fn, items, n=NCPU):
    items = list(items)
    if not items:
        return []
    with cf.ThreadPoolExecutor(n) as ex:
        return list(ex.map(fn, items))


def pmap_unordered(fn, items, n=NCPU):
    with cf.ThreadPoolExecutor(n) as ex:
        futs = [ex.submit(fn, it) for it in items]
        for f in cf.as_completed(futs):
            yield f.result()


def exit_class(rc):
    """0 = success, 1 = failure; signals are reported separately"""
    return 0 if rc == 0 else 1


def sh_quote(a):
    import shlex
    return ' '.join(shlex.quote(x) for x in a)


# ------------------------------------------------------------------------------------------------
class Findings:
    def __init__(self, pid):
        self.entries = []   # (key pattern, text)
        p = VERIF + '/KNOWN_FINDINGS.txt'
        if os.path.exists(p):
            for line in open(p):
                line = line.strip()
                m = re.match(r'finding:\s+property=(\S+)\s+key=(\S+)\s*(.*)$', line)
                if m and m.group(1) == pid:
                    self.entries.append((m.group(2), m.group(3)))
        self.hit = {}

    def match(self, key):
        for pat, text in self.entries:
            if key == pat or fnmatch.fnmatchcase(key, pat):
                self.hit[pat] = text
                return pat
        return None


class Check:
    """One run of one property check."""

    def __init__(self, pid, level, tier=None, deadline_s=None):
        self.pid = pid
        self.level = level
        self.tier = tier or os.environ.get('VERIF_TIER') or 'quick'
        self.t0 = time.time()
        dl = os.environ.get('VERIF_DEADLINE_S')
        self.deadline_s = float(dl) if dl else (deadline_s or (600 if self.tier == 'quick' else 2400))
        self.findings = Findings(pid)
        self.violations = []      # (key, desc, replay path)
        self.known = {}
        self.cov = {'evaluations': 0, 'distinct_nontrivial': 0, 'rule': '', 'samples': [], 'exhaustive': True}
        self.assumptions = []
        self.distinct = set()
        self.notes = []
        self.work = tempfile.mkdtemp(prefix='verif-%s-' % pid, dir=os.environ.get('VERIF_TMP', '/tmp'))
        self.nrep = 0
        self.lock = threading.Lock()
        self.max_replays = 25
        self.build_failed = None

    # -- time -------------------------------------------------------------------------------------
    def expired(self):
        return time.time() - self.t0 > self.deadline_s

    def cut(self, what):
        """called when a deadline cut the enumeration"""
        with self.lock:
            self.cov['exhaustive'] = False
            self.notes.append('deadline reached: ' + what)

    # -- coverage ---------------------------------------------------------------------------------
    def count(self, n=1):
        with self.lock:
            self.cov['evaluations'] += n

    def nontrivial(self, token):
        """register one distinct non-trivial case (token: hashable describing observed behaviour)"""
        h = hashlib.sha1(repr(token).encode()).digest()[:10]
        with self.lock:
            self.distinct.add(h)

    def sample(self, s, maxn=6):
        with self.lock:
            if len(self.cov['samples']) < maxn:
                self.cov['samples'].append(s)

    # -- violations -------------------------------------------------------------------------------
    def report(self, key, desc, files=None, cmds=None):
        """A failing case.  key identifies it for KNOWN_FINDINGS; files: {name: bytes/str}."""
        pat = self.findings.match(key)
        with self.lock:
            if pat:
                self.known.setdefault(pat, 0)
                self.known[pat] += 1
                return None
            for k, d, r in self.violations:
                if k == key:
                    return r
            self.nrep += 1
            n = self.nrep
            if n > self.max_replays:
                self.violations.append((key, desc, self.violations[-1][2]))
                return None
            d = '%s/replays/%s/%03d' % (OUT, self.pid, n)
            if os.path.isdir(d):
                shutil.rmtree(d)
            os.makedirs(d)
            for name, data in (files or {}).items():
                mode = 'wb' if isinstance(data, bytes) else 'w'
                with open(os.path.join(d, name), mode) as f:
                    f.write(data)
            with open(d + '/README.txt', 'w') as f:
                f.write('property=%s\nkey=%s\n%s\n' % (self.pid, key, desc))
            if cmds:
                with open(d + '/replay.sh', 'w') as f:
                    f.write('#!/bin/sh\n# replay without the explorer; run from this directory\ncd "$(dirname "$0")"\n')
                    for c in cmds:
                        f.write((c if isinstance(c, str) else sh_quote(c)) + '\n')
                os.chmod(d + '/replay.sh', 0o755)
            self.violations.append((key, desc, d))
            return d

    # -- end --------------------------------------------------------------------------------------
    def finish(self, extra=None):
        cov = self.cov
        cov['distinct_nontrivial'] = max(cov.get('distinct_nontrivial', 0), len(self.distinct))
        if extra:
            cov.update(extra)
        if self.notes:
            cov['notes'] = self.notes
        if self.known:
            cov['known_findings_seen'] = dict(self.known)
        ev = {'property_id': self.pid, 'tier': self.tier, 'seed': SEED, 'level': self.level,
              'coverage': cov, 'assumptions': self.assumptions,
              'wall_s': round(time.time() - self.t0, 2), 'violations': len(self.violations)}
        if self.build_failed:
            ev['coverage']['build_failed'] = self.build_failed
        os.makedirs(OUT + '/evidence', exist_ok=True)
        tmp = OUT + '/evidence/%s.json.tmp' % self.pid
        with open(tmp, 'w') as f:
            json.dump(ev, f, indent=1, default=str)
        os.replace(tmp, OUT + '/evidence/%s.json' % self.pid)
        shutil.rmtree(self.work, ignore_errors=True)
        for pat, n in sorted(self.known.items()):
            print('KNOWN-FINDING: property=%s key=%s (%d cases) %s' % (self.pid, pat, n, self.findings.hit.get(pat, '')))
        seen = set()
        for key, desc, d in self.violations:
            if d in seen or d is None:
                continue
            seen.add(d)
            print('VIOLATION property=%s replay=%s' % (self.pid, d))
            print('  key=%s %s' % (key, desc.splitlines()[0][:300] if desc else ''))
        print('%s %s: evaluations=%d distinct_nontrivial=%d exhaustive=%s violations=%d known=%d wall=%.1fs' % (
            self.pid, self.tier, cov['evaluations'], cov['distinct_nontrivial'], cov.get('exhaustive'),
            len(self.violations), len(self.known), time.time() - self.t0))
        sys.stdout.flush()
        if self.build_failed:
            sys.exit(3)
        sys.exit(1 if self.violations else 0)

    def build(self, *targets):
        from vlib import build
        try:
            return build.get(*targets)
        except build.BuildError as e:
            self.build_failed = str(e)[:2000]
            print('BUILD FAILED (no property verdict):', str(e)[:2000])
            self.cov['evaluations'] = 0
            self.cov['exhaustive'] = False
            self.finish()
